package main

// Calls: builtins, conversions, calls by contract, calls of function values by role.

import (
	"fmt"
	"go/ast"
	"go/token"
	"go/types"
	"strings"
)

type modTarget struct {
	key string
	ref string // "" = whole component
	lo  string // for element stores: window [lo, hi) of the backing array; "" = the whole array
	hi  string
}

func (fv *FV) evalCall(st *State, c *ast.CallExpr) []Term {
	// conversion
	if tv, ok := fv.info.Types[c.Fun]; ok && tv.IsType() {
		if len(c.Args) != 1 {
			fv.fail(c.Pos(), "conversion with %d arguments", len(c.Args))
		}
		return []Term{fv.convert(st, fv.evalExpr(st, c.Args[0]), tv.Type, c)}
	}
	fun := ast.Unparen(c.Fun)
	// builtin
	if id, ok := fun.(*ast.Ident); ok {
		if b, ok := fv.info.ObjectOf(id).(*types.Builtin); ok {
			return fv.evalBuiltin(st, b.Name(), c)
		}
	}
	// static callee?
	var callee *types.Func
	var recv *Term
	var recvExpr ast.Expr
	switch f := fun.(type) {
	case *ast.Ident:
		callee, _ = fv.info.ObjectOf(f).(*types.Func)
	case *ast.IndexExpr:
		if id, ok := f.X.(*ast.Ident); ok {
			callee, _ = fv.info.ObjectOf(id).(*types.Func)
		}
		if se, ok := f.X.(*ast.SelectorExpr); ok {
			callee, _ = fv.info.ObjectOf(se.Sel).(*types.Func)
		}
	case *ast.IndexListExpr:
		if id, ok := f.X.(*ast.Ident); ok {
			callee, _ = fv.info.ObjectOf(id).(*types.Func)
		}
	case *ast.SelectorExpr:
		if sel := fv.info.Selections[f]; sel != nil {
			if sel.Kind() == types.MethodVal {
				callee, _ = sel.Obj().(*types.Func)
				recvExpr = f.X
			}
		} else {
			callee, _ = fv.info.ObjectOf(f.Sel).(*types.Func) // pkg.Func
		}
	}
	if callee != nil {
		if full := callee.FullName(); full == "(*sync.Mutex).Lock" || full == "(*sync.Mutex).Unlock" {
			fv.lockOp(st, callee.Name(), recvExpr, c)
			return nil
		}
		if recvExpr != nil {
			r := fv.evalExpr(st, recvExpr)
			// method with pointer receiver called on addressable value etc.: only pointer/plain supported
			recv = &r
		}
		return fv.callStatic(st, callee, recv, recvExpr, c)
	}
	// dynamic call through a function value
	return fv.callValue(st, fun, c)
}

func (fv *FV) convert(st *State, v Term, to types.Type, c *ast.CallExpr) Term {
	ts := fv.sortOf(to)
	if v.Sort == "ElemPtr" && ts == "ElemPtr" {
		// unsafe.Pointer(&data[i]) and (*uint64)(unsafe.Pointer(&data[i]))
		if pt, ok := to.Underlying().(*types.Pointer); ok {
			if b, ok := pt.Elem().Underlying().(*types.Basic); ok && b.Kind() == types.Uint64 && !v.Word {
				if v.Room == "" {
					fv.fail(c.Pos(), "conversion to *uint64 of a pointer of unknown provenance")
				}
				fv.safety(st, "unsafe.inbounds["+fv.src(c)+"]", app(">=", v.Room, "8"), "the 8-byte word access stays inside the slice: "+fv.src(c), c.Pos())
				v.Word = true
			}
		}
		v.T = to
		return v
	}
	if v.Sort == ts {
		v.T = to
		v.Lit = false
		return v
	}
	switch {
	case v.Sort == sInt && isBV(ts):
		if v.Lit {
			r, _ := fv.coerce(v, Term{Sort: ts, T: to})
			r.T = to
			return r
		}
		return Term{S: int2bv(v.S, bvWidth(ts)), Sort: ts, T: to}
	case isBV(v.Sort) && ts == sInt:
		return Term{S: app("bv2nat", v.S), Sort: sInt, T: to}
	case isBV(v.Sort) && isBV(ts):
		wf, wt := bvWidth(v.Sort), bvWidth(ts)
		if wt > wf {
			return Term{S: fmt.Sprintf("((_ zero_extend %d) %s)", wt-wf, v.S), Sort: ts, T: to}
		}
		return Term{S: fmt.Sprintf("((_ extract %d 0) %s)", wt-1, v.S), Sort: ts, T: to}
	case v.Sort == sSlice && ts == sStr, v.Sort == sStr && ts == sSlice:
		fv.fail(c.Pos(), "string/[]byte conversion %s", fv.src(c))
	}
	fv.fail(c.Pos(), "unsupported conversion %s (%s to %s)", fv.src(c), v.Sort, ts)
	return Term{}
}

func (fv *FV) evalBuiltin(st *State, name string, c *ast.CallExpr) []Term {
	switch name {
	case "len":
		v := fv.evalExpr(st, c.Args[0])
		return []Term{fv.lenTerm(st, v)}
	case "cap":
		v := fv.evalExpr(st, c.Args[0])
		return []Term{{S: "(scap " + v.S + ")", Sort: sInt, T: types.Typ[types.Int]}}
	case "min", "max":
		a := fv.evalExpr(st, c.Args[0])
		for _, e := range c.Args[1:] {
			b := fv.evalExpr(st, e)
			a, b = fv.coerce(a, b)
			op := "<="
			if name == "max" {
				op = ">="
			}
			if a.Sort != sInt {
				fv.fail(c.Pos(), "min/max on %s", a.Sort)
			}
			a = Term{S: ite(app(op, a.S, b.S), a.S, b.S), Sort: sInt, T: fv.typeOf(c)}
		}
		return []Term{a}
	case "panic":
		fv.doPanic(st, c.Pos(), fv.src(c))
		return nil
	case "new":
		t := fv.typeOf(c).Underlying().(*types.Pointer).Elem()
		return []Term{fv.allocZero(st, t, c.Pos())}
	case "make":
		t := fv.typeOf(c)
		under := t.Underlying()
		if tp, ok := types.Unalias(t).(*types.TypeParam); ok {
			if ct := coreType(tp); ct != nil {
				under = ct // make(Slice, …) with Slice ~[]T
			}
		}
		switch ut := under.(type) {
		case *types.Slice:
			n := fv.toInt(fv.evalExpr(st, c.Args[1]))
			cp := n
			if len(c.Args) > 2 {
				cp = fv.toInt(fv.evalExpr(st, c.Args[2]))
				fv.safety(st, "make["+fv.src(c)+"]", and(app("<=", "0", n.S), app("<=", n.S, cp.S)), "make: 0 <= len <= cap", c.Pos())
			} else {
				fv.safety(st, "make["+fv.src(c)+"]", app("<=", "0", n.S), "make: len >= 0", c.Pos())
			}
			return []Term{fv.makeSlice(st, t, ut.Elem(), n.S, cp.S)}
		case *types.Map:
			return []Term{fv.mapMake(st, t)}
		}
		fv.fail(c.Pos(), "unsupported make %s", fv.src(c))
	case "append":
		return []Term{fv.evalAppend(st, c)}
	case "copy":
		dst := fv.evalExpr(st, c.Args[0])
		src := fv.evalExpr(st, c.Args[1])
		return []Term{fv.evalCopy(st, dst, src, c)}
	case "delete":
		m := fv.evalExpr(st, c.Args[0])
		k := fv.evalExpr(st, c.Args[1])
		fv.mapDelete(st, m, k, c.Pos())
		return nil
	case "clear":
		m := fv.evalExpr(st, c.Args[0])
		if _, ok := underMap(m.T); ok {
			fv.mapClear(st, m, c.Pos())
			return nil
		}
	}
	fv.fail(c.Pos(), "unsupported builtin %s", name)
	return nil
}

func (fv *FV) allocZero(st *State, t types.Type, pos token.Pos) Term {
	named, sty := structOf(t)
	if sty == nil || named == nil {
		fv.fail(pos, "new(%s): only named struct types", t)
	}
	r := fv.newRef(st, "new"+named.Obj().Name())
	for j := 0; j < sty.NumFields(); j++ {
		key, _ := fv.fieldComp(named, sty.Field(j))
		z := fv.zero(sty.Field(j).Type()).S
		if isUserByRef(sty.Field(j).Type()) {
			z = fv.allocEmbedded(st, key, r, sty.Field(j).Type(), pos)
		}
		fv.heapSetNoFrame(st, key, sto(fv.heapGet(st, key), r, z))
	}
	fv.initGhostFields(st, named, r)
	return Term{S: r, Sort: sInt, T: types.NewPointer(t)}
}

// allocEmbedded allocates the zero object embedded in field `key` of the new object owner.
func (fv *FV) allocEmbedded(st *State, key, owner string, t types.Type, pos token.Pos) string {
	e := fv.allocZero(st, t, pos)
	own := "owner$" + cleanName(key)
	fv.declare(own, fmt.Sprintf("(declare-fun %s (Int) Int)", own))
	fv.define(st, eq(app(own, e.S), owner))
	return e.S
}

// makeSlice: fresh backing array, all elements zero.
func (fv *FV) makeSlice(st *State, t types.Type, elem types.Type, n, cp string) Term {
	key, _ := fv.elemComp(elem)
	b := fv.newRef(st, "mk")
	es := fv.sortOf(elem)
	z := fv.zero(elem).S
	fv.heapSetNoFrame(st, key, sto(fv.heapGet(st, key), b, fmt.Sprintf("((as const %s) %s)", arr(sInt, es), z)))
	return Term{S: fmt.Sprintf("(mk-slice %s 0 %s %s)", b, n, cp), Sort: sSlice, T: t}
}

// append(s, v...) — in place when len+k <= cap, else a fresh backing array with arbitrary larger capacity.
func (fv *FV) evalAppend(st *State, c *ast.CallExpr) Term {
	s := fv.evalExpr(st, c.Args[0])
	t := fv.typeOf(c)
	et := elemType(t)
	if et == nil {
		fv.fail(c.Pos(), "append to non-slice")
	}
	if s.Sort != sSlice {
		s, _ = fv.coerce(s, Term{Sort: sSlice, T: t})
	}
	s.T = t
	key, _ := fv.elemComp(et)
	es := fv.sortOf(et)
	if c.Ellipsis.IsValid() {
		src := fv.evalExpr(st, c.Args[1])
		if src.Sort != sSlice {
			fv.fail(c.Pos(), "append(s, x...) with non-slice x")
		}
		return fv.appendSlice(st, s, src, t, et, c.Pos())
	}
	var vals []Term
	for _, a := range c.Args[1:] {
		v := fv.evalExpr(st, a)
		v, _ = fv.coerce(v, Term{Sort: es, T: et})
		vals = append(vals, v)
	}
	k := len(vals)
	if k == 0 {
		return s
	}
	E := fv.heapGet(st, key)
	inplace := app("<=", app("+", "(slen "+s.S+")", fmt.Sprint(k)), "(scap "+s.S+")")
	// in-place version
	a1 := sel(E, "(sbase "+s.S+")")
	for i, v := range vals {
		a1 = sto(a1, elemAddr(s.S, app("+", "(slen "+s.S+")", fmt.Sprint(i))), v.S)
	}
	E1 := sto(E, "(sbase "+s.S+")", a1)
	r1 := fmt.Sprintf("(mk-slice (sbase %s) (soff %s) (+ (slen %s) %d) (scap %s))", s.S, s.S, s.S, k, s.S)
	// fresh version
	alloc := fv.allocTerm(st)
	nb := fv.fresh("appbase", sInt)
	ncap := fv.fresh("appcap", sInt)
	na := fv.fresh("apparr", arr(sInt, es))
	fv.define(st, and(app(">", nb, "0"), not(sel(alloc, nb)), app(">=", ncap, app("+", "(slen "+s.S+")", fmt.Sprint(k)))))
	fv.nfresh++
	kk := fmt.Sprintf("k?%d", fv.nfresh)
	fv.define(st, fmt.Sprintf("(forall ((%s Int)) (! (=> (and (<= 0 %s) (< %s (slen %s))) (= (select %s %s) (select (select %s (sbase %s)) (at$ (soff %s) %s)))) :pattern ((select %s %s))))", kk, kk, kk, s.S, na, kk, E, s.S, s.S, kk, na, kk))
	a2 := na
	for i, v := range vals {
		a2 = sto(a2, app("+", "(slen "+s.S+")", fmt.Sprint(i)), v.S)
	}
	E2 := sto(E, nb, a2)
	r2 := fmt.Sprintf("(mk-slice %s 0 (+ (slen %s) %d) %s)", nb, s.S, k, ncap)
	res := fv.fresh("app", sSlice)
	fv.define(st, eq(res, ite(inplace, r1, r2)))
	newE := fv.fresh("E", fv.compSort[key])
	fv.define(st, eq(newE, ite(inplace, E1, E2)))
	fv.heapSet(st, key, newE)
	fv.noteElemWrite(st, key, "(sbase "+s.S+")")
	st.heap["alloc"] = Term{S: ite(inplace, alloc, sto(alloc, nb, "true")), Sort: arr(sInt, sBool)}
	{
		// consequences that hold in both regimes, stated uniformly so that most proofs need no case split on
		// "in place or reallocated": the old elements are where they were, the new ones follow
		fv.nfresh++
		kq := fmt.Sprintf("k?%d", fv.nfresh)
		newRead := sel(sel(newE, "(sbase "+res+")"), elemAddr(res, kq))
		fv.define(st, fmt.Sprintf("(forall ((%s Int)) (! (=> (and (<= 0 %s) (< %s (slen %s))) (= %s (select (select %s (sbase %s)) (at$ (soff %s) %s)))) :pattern (%s)))", kq, kq, kq, s.S, newRead, E, s.S, s.S, kq, newRead))
		for i, v := range vals {
			fv.define(st, eq(sel(sel(newE, "(sbase "+res+")"), elemAddr(res, app("+", "(slen "+s.S+")", fmt.Sprint(i)))), v.S))
		}
		fv.define(st, and(eq("(slen "+res+")", app("+", "(slen "+s.S+")", fmt.Sprint(k))), app("<=", "(slen "+res+")", "(scap "+res+")"), app("<=", "0", "(soff "+res+")")))
	}
	if fv.usesBag() {
		// multiset fact of append (part of the trusted base): the new slice holds the old elements plus the appended ones
		pre := st.clone()
		pre.heap[key] = Term{S: E, Sort: fv.compSort[key]}
		before := fv.bagTerm(pre, s, "0", "(slen "+s.S+")")
		acc := before.S
		for _, v := range vals {
			acc = sto(acc, v.S, app("+", sel(acc, v.S), "1"))
		}
		rt := Term{S: res, Sort: sSlice, T: t}
		after := fv.bagTerm(st, rt, "0", "(slen "+res+")")
		fv.define(st, eq(after.S, acc))
	}
	return Term{S: res, Sort: sSlice, T: t}
}

// usesBag: the contract of the function under verification talks about multisets.
func (fv *FV) usesBag() bool {
	if fv.fc == nil || fv.pc == nil {
		return false
	}
	if fv.bagUse == 0 {
		fv.bagUse = 1
		// the function's own contract (any clause) talks about bag(...)
		var texts []string
		for _, c := range fv.fc.Requires {
			texts = append(texts, c.Src)
		}
		for _, c := range fv.fc.Ensures {
			texts = append(texts, c.Src)
		}
		for _, l := range fv.fc.Loops {
			for _, c := range l.Invariants {
				texts = append(texts, c.Src)
			}
		}
		for _, g := range fv.fc.Ghosts {
			texts = append(texts, g.Src)
		}
		for _, t := range texts {
			if strings.Contains(t, "bag(") || strings.Contains(t, "bagadd(") {
				fv.bagUse = 2
			}
		}
	}
	return fv.bagUse == 2
}

func (fv *FV) appendSlice(st *State, s, src Term, t types.Type, et types.Type, pos token.Pos) Term {
	key, _ := fv.elemComp(et)
	es := fv.sortOf(et)
	E := fv.heapGet(st, key)
	n := "(slen " + src.S + ")"
	inplace := app("<=", app("+", "(slen "+s.S+")", n), "(scap "+s.S+")")
	alloc := fv.allocTerm(st)
	// result array (either the old backing array updated, or a fresh one)
	na := fv.fresh("apparr", arr(sInt, es))
	nb := fv.fresh("appbase", sInt)
	ncap := fv.fresh("appcap", sInt)
	res := fv.fresh("app", sSlice)
	fv.define(st, and(app(">", nb, "0"), not(sel(alloc, nb)), app(">=", ncap, app("+", "(slen "+s.S+")", n))))
	fv.define(st, eq(res, ite(inplace,
		fmt.Sprintf("(mk-slice (sbase %s) (soff %s) (+ (slen %s) %s) (scap %s))", s.S, s.S, s.S, n, s.S),
		fmt.Sprintf("(mk-slice %s 0 (+ (slen %s) %s) %s)", nb, s.S, n, ncap))))
	fv.nfresh++
	kk := fmt.Sprintf("k?%d", fv.nfresh)
	oldA := sel(E, "(sbase "+s.S+")")
	srcA := sel(E, "(sbase "+src.S+")")
	roff := "(soff " + res + ")"
	// appended elements
	fv.define(st, fmt.Sprintf("(forall ((%s Int)) (! (=> (and (<= (slen %s) %s) (< %s (+ (slen %s) %s))) (= (select %s (at$ %s %s)) (select %s (at$ (soff %s) (- %s (slen %s)))))) :pattern ((select %s (at$ %s %s)))))", kk, s.S, kk, kk, s.S, n, na, roff, kk, srcA, src.S, kk, s.S, na, roff, kk))
	// in place: everything outside the appended window is unchanged; fresh: prefix copied
	fv.define(st, implies(inplace, fmt.Sprintf("(forall ((%s Int)) (! (=> (or (< %s (+ (soff %s) (slen %s))) (>= %s (+ (soff %s) (slen %s) %s))) (= (select %s %s) (select %s %s))) :pattern ((select %s %s))))", kk, kk, s.S, s.S, kk, s.S, s.S, n, na, kk, oldA, kk, na, kk)))
	fv.define(st, implies(not(inplace), fmt.Sprintf("(forall ((%s Int)) (! (=> (and (<= 0 %s) (< %s (slen %s))) (= (select %s %s) (select %s (at$ (soff %s) %s)))) :pattern ((select %s %s))))", kk, kk, kk, s.S, na, kk, oldA, s.S, kk, na, kk)))
	newE := fv.fresh("E", fv.compSort[key])
	fv.define(st, eq(newE, sto(E, "(sbase "+res+")", na)))
	fv.heapSet(st, key, newE)
	fv.noteElemWrite(st, key, "(sbase "+s.S+")")
	st.heap["alloc"] = Term{S: ite(inplace, alloc, sto(alloc, nb, "true")), Sort: arr(sInt, sBool)}
	return Term{S: res, Sort: sSlice, T: t}
}

// copy(dst, src): min(len) elements, reads before writes.
func (fv *FV) evalCopy(st *State, dst, src Term, c *ast.CallExpr) Term {
	et := elemType(dst.T)
	key, _ := fv.elemComp(et)
	es := fv.sortOf(et)
	E := fv.heapGet(st, key)
	var srcA, soff, slen string
	if src.Sort == sStr {
		fv.fail(c.Pos(), "copy from string")
	}
	srcA, soff, slen = sel(E, "(sbase "+src.S+")"), "(soff "+src.S+")", "(slen "+src.S+")"
	n := fv.fresh("ncopy", sInt)
	fv.define(st, eq(n, ite(app("<=", "(slen "+dst.S+")", slen), "(slen "+dst.S+")", slen)))
	na := fv.fresh("cparr", arr(sInt, es))
	fv.nfresh++
	kk := fmt.Sprintf("k?%d", fv.nfresh)
	dA := sel(E, "(sbase "+dst.S+")")
	doff := "(soff " + dst.S + ")"
	fv.define(st, fmt.Sprintf("(forall ((%s Int)) (! (=> (and (<= 0 %s) (< %s %s)) (= (select %s (at$ %s %s)) (select %s (at$ %s %s)))) :pattern ((select %s (at$ %s %s)))))", kk, kk, kk, n, na, doff, kk, srcA, soff, kk, na, doff, kk))
	fv.define(st, fmt.Sprintf("(forall ((%s Int)) (! (=> (or (< %s %s) (>= %s (+ %s %s))) (= (select %s %s) (select %s %s))) :pattern ((select %s %s))))", kk, kk, doff, kk, doff, n, na, kk, dA, kk, na, kk))
	fv.heapSet(st, key, sto(E, "(sbase "+dst.S+")", na))
	fv.noteElemWrite(st, key, "(sbase "+dst.S+")")
	if fv.usesBag() {
		pre := st.clone()
		pre.heap[key] = Term{S: E, Sort: fv.compSort[key]}
		before := fv.bagTerm(pre, src, "0", n)
		after := fv.bagTerm(st, dst, "0", n)
		fv.define(st, eq(after.S, before.S))
	}
	return Term{S: n, Sort: sInt, T: types.Typ[types.Int]}
}

// noteElemWrite remembers which backing arrays were written (for the frame obligation).
func (fv *FV) noteElemWrite(st *State, key, base string) {}

func (fv *FV) doPanic(st *State, pos token.Pos, what string) {
	pe := fv.panicsEntry()
	fv.oblige(st, "panic["+what+"]", pe, "explicit panic reachable only under the contract's `panics when`: "+what, nil, pos)
	st.guard = "false"
}

// ---------------------------------------------------------------------------

func (fv *FV) callStatic(st *State, callee *types.Func, recv *Term, recvExpr ast.Expr, c *ast.CallExpr) []Term {
	if fv.inYieldCall == 0 {
		if fn, yi, lit := fv.yieldLitArg(c); yi >= 0 && fn == callee {
			return fv.callWithYieldClosure(st, callee, recv, recvExpr, c, yi, lit)
		}
	}
	fi := fv.w.lookupFunc(callee)
	var fc *FuncContract
	var pc *PkgContracts
	if fi != nil {
		fc, pc = fi.Contract, fi.PC
	} else {
		fc, pc = fv.w.libContract(callee)
	}
	if fc == nil {
		// library functions with built-in models
		if r, ok := fv.builtinLib(st, callee, recv, c); ok {
			return r
		}
		fv.fail(c.Pos(), "call of %s: no contract", callee.FullName())
	}
	// arguments
	sig := callee.Type().(*types.Signature)
	if tv, ok := fv.info.Types[c.Fun]; ok {
		// the instantiated signature of a generic callee (stree.New called with T := KV[K, V]): parameter types, and
		// with them the element sorts of variadic and slice arguments, are the instantiated ones
		if s2, ok := tv.Type.(*types.Signature); ok && s2.Params().Len() == sig.Params().Len() && s2.Variadic() == sig.Variadic() {
			sig = s2
		}
	}
	osig := callee.Origin().Type().(*types.Signature)
	var args []Term
	np := sig.Params().Len()
	for i, a := range c.Args {
		if sig.Variadic() && i >= np-1 && !c.Ellipsis.IsValid() {
			break
		}
		var v Term
		if id, ok := a.(*ast.Ident); ok && id.Name == "_govc_yield_" && fv.rangeCallback != nil {
			v = *fv.rangeCallback
		} else {
			v = fv.evalExpr(st, a)
		}
		if i < np {
			v = fv.asParam(v, sig.Params().At(i).Type())
		}
		args = append(args, v)
	}
	if sig.Variadic() && !c.Ellipsis.IsValid() {
		// pack the rest into a fresh slice
		vt := sig.Params().At(np - 1).Type()
		et := vt.(*types.Slice).Elem()
		rest := c.Args[np-1:]
		if len(rest) == 0 {
			args = append(args, Term{S: "(mk-slice 0 0 0 0)", Sort: sSlice, T: vt})
		} else {
			key, _ := fv.elemComp(et)
			b := fv.newRef(st, "va")
			a := sel(fv.heapGet(st, key), b)
			for i, e := range rest {
				v := fv.evalExpr(st, e)
				v, _ = fv.coerce(v, Term{Sort: fv.sortOf(et)})
				a = sto(a, fmt.Sprint(i), v.S)
			}
			fv.heapSetNoFrame(st, key, sto(fv.heapGet(st, key), b, a))
			args = append(args, Term{S: fmt.Sprintf("(mk-slice %s 0 %d %d)", b, len(rest), len(rest)), Sort: sSlice, T: vt})
		}
	}
	// receiver: auto address/deref
	var unbox func()
	if recv != nil && osig.Recv() != nil {
		_, wantPtr := osig.Recv().Type().(*types.Pointer)
		_, havePtr := recv.T.Underlying().(*types.Pointer)
		if wantPtr && !havePtr && isOpaqueStruct(recv.T) {
			r := *recv
			r.T = types.NewPointer(recv.T)
			recv = &r
			havePtr = true
		}
		if wantPtr && !havePtr {
			// x.M() with pointer receiver on an addressable local of non-struct type: box the variable in a fresh
			// cell for the duration of the call and read it back afterwards (the callee does not retain the pointer)
			if se, isSel := ast.Unparen(recvExpr).(*ast.SelectorExpr); isSel {
				// p.f.M() with pointer receiver, f a field of non-struct type reached through pointer p: box the field
				if selection := fv.info.Selections[se]; selection != nil && selection.Kind() == types.FieldVal {
					base := fv.evalExpr(st, se.X)
					if _, isPtr := base.T.Underlying().(*types.Pointer); isPtr && !strings.HasPrefix(recv.Sort, "S_") {
						cur := *recv
						key, _ := fv.elemComp(cur.T)
						cell := fv.newRef(st, "box")
						E := fv.heapGet(st, key)
						fv.heapSetNoFrame(st, key, sto(E, cell, sto(sel2(E, cell), "0", cur.S)))
						fv.declare("sort:ElemPtr", "(declare-datatypes ((ElemPtr 0)) (((mk-eptr (epbase Int) (epidx Int)))))")
						boxed := Term{S: fmt.Sprintf("(mk-eptr %s 0)", cell), Sort: "ElemPtr", T: types.NewPointer(cur.T)}
						recv = &boxed
						unbox = func() {
							v := cur
							v.S = sel(sel(fv.heapGet(st, key), cell), "0")
							v = fv.nameTerm(st, se.Sel.Name, v)
							fv.storeField(st, base, se.Sel.Name, v, se)
						}
						goto boxedField
					}
				}
			}
			{
			id, isID := ast.Unparen(recvExpr).(*ast.Ident)
			if !isID || recv.Sort == sSlice && false {
				fv.fail(c.Pos(), "method %s needs a pointer receiver, value given", callee.Name())
			}
			obj := fv.info.ObjectOf(id)
			cur, live := st.vars[obj]
			if !live || strings.HasPrefix(cur.Sort, "S_") {
				fv.fail(c.Pos(), "method %s needs a pointer receiver, value given", callee.Name())
			}
			key, _ := fv.elemComp(cur.T)
			cell := fv.newRef(st, "box")
			E := fv.heapGet(st, key)
			fv.heapSetNoFrame(st, key, sto(E, cell, sto(sel(E, cell), "0", cur.S)))
			fv.declare("sort:ElemPtr", "(declare-datatypes ((ElemPtr 0)) (((mk-eptr (epbase Int) (epidx Int)))))")
			boxed := Term{S: fmt.Sprintf("(mk-eptr %s 0)", cell), Sort: "ElemPtr", T: types.NewPointer(cur.T)}
			recv = &boxed
			unbox = func() {
				v := cur
				v.S = sel(sel(fv.heapGet(st, key), cell), "0")
				fv.setVar(st, obj, fv.nameTerm(st, obj.Name(), v))
			}
			}
		boxedField:
		}
		if !wantPtr && havePtr {
			v := fv.derefRead(st, *recv, c.Pos())
			recv = &v
		}
	}
	// result types
	var rtypes []types.Type
	rt := fv.info.Types[c].Type
	if tup, ok := rt.(*types.Tuple); ok {
		for i := 0; i < tup.Len(); i++ {
			rtypes = append(rtypes, tup.At(i).Type())
		}
	} else if rt != nil {
		if b, ok := rt.(*types.Basic); !ok || b.Kind() != types.Invalid {
			rtypes = append(rtypes, rt)
		}
	}
	if sig.Results().Len() == 0 {
		rtypes = nil
	}
	name := callee.Name()
	if fi != nil {
		name = fi.Key
	}
	instTypeArgs = nil
	switch f := ast.Unparen(c.Fun).(type) {
	case *ast.Ident:
		if in, ok := fv.info.Instances[f]; ok {
			instTypeArgs = in.TypeArgs
		}
	case *ast.SelectorExpr:
		if in, ok := fv.info.Instances[f.Sel]; ok {
			instTypeArgs = in.TypeArgs
		}
	case *ast.IndexExpr:
		if id, ok := f.X.(*ast.Ident); ok {
			if in, ok := fv.info.Instances[id]; ok {
				instTypeArgs = in.TypeArgs
			}
		}
	}
	res := fv.callByContract(st, fc, pc, osig, name, recv, args, rtypes, c.Pos(), fi)
	instTypeArgs = nil
	if unbox != nil {
		unbox()
	}
	return res
}

func (fv *FV) asParam(v Term, pt types.Type) Term {
	ps := ""
	func() {
		defer func() { recover() }()
		ps = fv.sortOf(pt)
	}()
	if ps != "" && v.Sort != ps {
		v, _ = fv.coerce(v, Term{Sort: ps, T: pt})
	}
	if v.Lit && v.T == nil || isNilLit(v) {
		v.T = pt
		v.Lit = false
	}
	return v
}

func (fv *FV) builtinLib(st *State, callee *types.Func, recv *Term, c *ast.CallExpr) ([]Term, bool) {
	return nil, false
}

// callByContract replaces a call by the callee's contract.
// calleeTypeArgs maps the callee's type parameter names to the types they are instantiated with at this call.
func (fv *FV) calleeTypeArgs(fi *FuncInfo, recv *Term, inst *types.TypeList) map[string]types.Type {
	if fi == nil {
		return nil
	}
	out := map[string]types.Type{}
	fd := fi.Decl
	if fd.Recv != nil && len(fd.Recv.List) > 0 && recv != nil && recv.T != nil {
		// receiver type parameters: names from the declaration, arguments from the receiver's type
		t := recv.T
		if p, ok := t.Underlying().(*types.Pointer); ok {
			t = p.Elem()
		}
		if pp, ok := t.(*types.Pointer); ok {
			t = pp.Elem()
		}
		if named, ok := types.Unalias(t).(*types.Named); ok && named.TypeArgs() != nil {
			var names []string
			rt := fd.Recv.List[0].Type
			if se, ok := rt.(*ast.StarExpr); ok {
				rt = se.X
			}
			switch x := rt.(type) {
			case *ast.IndexExpr:
				if id, ok := x.Index.(*ast.Ident); ok {
					names = append(names, id.Name)
				}
			case *ast.IndexListExpr:
				for _, ix := range x.Indices {
					if id, ok := ix.(*ast.Ident); ok {
						names = append(names, id.Name)
					}
				}
			}
			for i, n := range names {
				if i < named.TypeArgs().Len() && n != "_" {
					out[n] = named.TypeArgs().At(i)
				}
			}
		}
	}
	if fd.Type.TypeParams != nil && inst != nil {
		i := 0
		for _, f := range fd.Type.TypeParams.List {
			for _, n := range f.Names {
				if i < inst.Len() {
					out[n.Name] = inst.At(i)
				}
				i++
			}
		}
	}
	if len(out) == 0 {
		return nil
	}
	return out
}

var instTypeArgs *types.TypeList

func (fv *FV) callByContract(st *State, fc *FuncContract, pc *PkgContracts, osig *types.Signature, name string, recv *Term, args []Term, rtypes []types.Type, pos token.Pos, fi *FuncInfo) []Term {
	fv.callOrd[name]++
	ord := fv.callOrd[name]
	env := &Env{fv: fv, st: st, names: map[string]Term{}, pc: pc, roles: fc.Roles, tsubst: fv.calleeTypeArgs(fi, recv, instTypeArgs)}
	if recv != nil && osig.Recv() != nil && osig.Recv().Name() != "" {
		env.names[osig.Recv().Name()] = *recv
	}
	if recv != nil {
		env.names["self"] = *recv
	}
	for i := 0; i < osig.Params().Len() && i < len(args); i++ {
		if _, isArr := osig.Params().At(i).Type().Underlying().(*types.Array); isArr && len(fc.Modifies) > 0 {
			// the callee gets a copy of an array argument; the engine passes the array itself, which is the same
			// thing only when the callee writes nothing
			fv.fail(pos, "unsupported: array passed by value to %s, whose contract has a modifies clause", name)
		}
		if n := osig.Params().At(i).Name(); n != "" && n != "_" {
			env.names[n] = args[i]
		}
	}
	if fc.Seq != "" && len(args) == osig.Params().Len()+1 {
		env.names[fc.Seq] = args[len(args)-1] // the callback of the range statement that invokes the returned function
	}
	// ghost arguments from the caller's contract
	if len(fc.Ghost) > 0 {
		var ga map[string]SExpr
		if fv.fc != nil {
			short := name
			if k := strings.LastIndex(short, "."); k >= 0 {
				short = short[k+1:]
			}
			ga = fv.fc.GhostArgs[fmt.Sprintf("%s#%d", short, ord)]
			if ga == nil {
				ga = fv.fc.GhostArgs[short+"#*"]
			}
		}
		for _, g := range fc.Ghost {
			ex := ga[g.Name]
			if ex == nil {
				fv.fail(pos, "call %s#%d: no ghost argument for %s (add `call %s#%d: %s = …` to the caller's contract)", name, ord, g.Name, name, ord, g.Name)
			}
			env.names[g.Name] = fv.spec(fv.localEnv(st, pos), ex)
		}
	}
	label := func(c *Clause, i int) string {
		if c.Label != "" {
			return c.Label
		}
		return fmt.Sprint(i + 1)
	}
	// panics when: caller must be allowed to panic there
	if fc.PanicsWhen != nil {
		pw := fv.specBool(env, fc.PanicsWhen)
		pe := fv.panicsEntry()
		fv.oblige(st, fmt.Sprintf("nopanic.%s#%d", name, ord), or(not(pw), pe), "callee "+name+" panics when "+fc.PanicsSrc, nil, pos)
		fv.assume(st, not(pw))
	}
	for i, r := range fc.Requires {
		if !fv.tagOK(r.Tags) {
			continue
		}
		parts := fv.splitConj(env, r.Expr)
		for j, phi := range parts {
			nm := fmt.Sprintf("pre.%s#%d.%s", name, ord, label(r, i))
			if len(parts) > 1 {
				nm += fmt.Sprintf("/%d", j+1)
			}
			fv.oblige(st, nm, phi, "precondition of "+name+": "+r.Src, nil, pos)
			fv.assume(st, phi)
		}
	}
	if fv.fc != nil && fv.fc.Decreases != nil && fi != nil && fi == fv.fi && fc.Decreases != nil {
		// recursive call: measure decreases
		m0 := fv.spec(fv.postEnv(fv.entry, nil), fv.fc.Decreases)
		m1 := fv.spec(env, fc.Decreases)
		fv.oblige(st, fmt.Sprintf("rec.decreases#%d", ord), and(app("<", m1.S, m0.S), app(">=", m0.S, "0")), "recursion measure decreases", nil, pos)
	}
	pre := st.clone()
	// havoc the frame
	targets := fv.modTargets(env, fc.Modifies)
	if !fc.Pure {
		fv.havocAlloc(st)
	}
	fv.havoc(st, targets)
	// results
	var results []Term
	for i, t := range rtypes {
		s := fv.sortOf(t)
		// a pure function whose contract defines its single result (`ensures result == E`) is inlined as E
		if fc.Pure && len(rtypes) == 1 {
			var def SExpr
			for _, e := range fc.Ensures {
				if b, ok := e.Expr.(*SBin); ok && b.Op == "==" && fv.tagOK(e.Tags) {
					if id, ok := b.L.(*SIdent); ok && id.Name == "result" {
						def = b.R
						break
					}
				}
			}
			if def != nil {
				v, ok := fv.trySpec(&Env{fv: fv, st: st, old: pre, names: env.names, pc: pc, roles: fc.Roles, tsubst: env.tsubst}, def)
				if ok && v.Sort == s {
					v.T = t
					v.Lit = false
					results = append(results, v)
					continue
				}
			}
		}
		if isUserByRef(t) {
			// a struct returned by value (held by reference): a fresh object, described by the postconditions
			ref := fv.newRef(st, "ret"+cleanName(name))
			results = append(results, Term{S: ref, Sort: sInt, T: t})
			fv.havocObject(st, ref, t)
			continue
		}
		r := Term{S: fv.fresh(fmt.Sprintf("%s.r%d", name, i), s), Sort: s, T: t}
		results = append(results, r)
		fv.assumeWF(st, r)
	}
	for _, g := range fc.GhostRet {
		t := fv.resolveType(&Env{fv: fv, st: st, pc: pc}, g.Type)
		s := fv.sortOf(t)
		env.names[g.Name] = Term{S: fv.fresh(name+"."+g.Name, s), Sort: s, T: t}
		// visible to the caller's contract as <callee>_<name> (the value of the most recent call)
		short := name
		if k := strings.LastIndex(short, "."); k >= 0 {
			short = short[k+1:]
		}
		st.ghost[short+"_"+g.Name] = env.names[g.Name]
	}
	penv := &Env{fv: fv, st: st, old: pre, names: env.names, pc: pc, results: results, roles: fc.Roles, tsubst: env.tsubst}
	for _, e := range fc.Ensures {
		if fv.tagOK(e.Tags) {
			fv.assume(st, fv.specBool(penv, e.Expr))
		}
	}
	if fc.Trusted || fi == nil {
		fv.assumptions["contract of "+qual(pc, name)+" is assumed, its body is not verified"+why(fc)] = true
	}
	return results
}

func sel2(a, i string) string { return sel(a, i) }

// trySpec translates a contract expression, reporting failure instead of aborting.
func (fv *FV) trySpec(env *Env, e SExpr) (t Term, ok bool) {
	defer func() {
		if r := recover(); r != nil {
			if _, isU := r.(unsupported); isU {
				ok = false
				return
			}
			panic(r)
		}
	}()
	return fv.spec(env, e), true
}

// int2bv pushes the conversion of an integer term to a bit-vector through ite-chains of literals.
func int2bv(s string, w int) string {
	if isIntLit(s) {
		var v uint64
		fmt.Sscanf(s, "%d", &v)
		if w < 64 {
			v &= (1 << uint(w)) - 1
		}
		return fmt.Sprintf("(_ bv%d %d)", v, w)
	}
	if strings.HasPrefix(s, "(ite ") {
		parts := splitTop(s[5 : len(s)-1])
		if len(parts) == 3 {
			return "(ite " + parts[0] + " " + int2bv(parts[1], w) + " " + int2bv(parts[2], w) + ")"
		}
	}
	return fmt.Sprintf("((_ int2bv %d) %s)", w, s)
}

func why(fc *FuncContract) string {
	if fc.TrustWhy != "" {
		return " (" + fc.TrustWhy + ")"
	}
	return ""
}

func qual(pc *PkgContracts, name string) string {
	if pc == nil {
		return name
	}
	return shortPkg(pc.Path) + "." + name
}

// assumeWF: slice headers are well-formed and bases allocated; pointers allocated.
func (fv *FV) assumeWF(st *State, v Term) {
	switch {
	case v.Sort == sSlice:
		fv.assume(st, fmt.Sprintf("(and (<= 0 (soff %s)) (<= 0 (slen %s)) (<= (slen %s) (scap %s)) (=> (= (sbase %s) 0) (= (scap %s) 0)) (>= (sbase %s) 0) %s)", v.S, v.S, v.S, v.S, v.S, v.S, v.S, sel(fv.allocTerm(st), "(sbase "+v.S+")")))
	case v.Sort == sStr:
		fv.assume(st, fmt.Sprintf("(and (<= 0 (stroff %s)) (<= 0 (strlen %s)))", v.S, v.S))
	case v.Sort == sInt && v.T != nil:
		switch v.T.Underlying().(type) {
		case *types.Pointer, *types.Map:
			fv.assume(st, and(app(">=", v.S, "0"), sel(fv.allocTerm(st), v.S)))
		case *types.Signature:
			fv.assume(st, app(">=", v.S, "0"))
		case *types.Basic:
			if b := v.T.Underlying().(*types.Basic); b.Info()&types.IsUnsigned != 0 {
				fv.assume(st, app(">=", v.S, "0"))
			}
		}
	}
}

func (fv *FV) havocAlloc(st *State) {
	a := fv.allocTerm(st)
	n := fv.fresh("alloc", arr(sInt, sBool))
	fv.define(st, fmt.Sprintf("(forall ((r Int)) (! (=> (select %s r) (select %s r)) :pattern ((select %s r)) :pattern ((select %s r))))", a, n, a, n))
	st.heap["alloc"] = Term{S: n, Sort: arr(sInt, sBool)}
}

// modTargets evaluates a modifies list in env (the state before the call / at function entry).
func (fv *FV) modTargets(env *Env, list []SExpr) []modTarget {
	var out []modTarget
	for _, e := range list {
		out = append(out, fv.modTarget(env, e)...)
	}
	return out
}

// ownedBase is the backing array of the slice s named by the modifies target e. When e is a field p.f of a
// possibly nil object, the target is empty for p == nil (base 0, which havoc and the frame check skip): the field
// array's entry for the nil object is an arbitrary value, and "the backing array of nil.f" must not stand for some
// unrelated allocated array.
func (fv *FV) ownedBase(env *Env, e SExpr, s Term) string {
	base := "(sbase " + s.S + ")"
	if f, ok := e.(*SField); ok {
		p := fv.spec(env, f.X)
		if p.Sort == sInt {
			if _, isPtr := p.T.Underlying().(*types.Pointer); isPtr {
				return ite(eq(p.S, "0"), "0", base)
			}
		}
	}
	return base
}

func (fv *FV) modTarget(env *Env, e SExpr) []modTarget {
	switch x := e.(type) {
	case *SCall:
		switch x.Fn {
		case "old":
			n := *env
			if env.old != nil {
				n.st = env.old
			}
			if env.oldNames != nil {
				n.names = env.oldNames
			}
			return fv.modTarget(&n, x.Args[0])
		case "elems":
			s := fv.spec(env, x.Args[0])
			et := elemType(s.T)
			if et == nil {
				fv.sfail("elems() of a non-slice")
			}
			key, _ := fv.elemComp(et)
			return []modTarget{{key: key, ref: fv.ownedBase(env, x.Args[0], s), lo: "(soff " + s.S + ")", hi: "(+ (soff " + s.S + ") (slen " + s.S + "))"}}
		case "backing":
			s := fv.spec(env, x.Args[0])
			et := elemType(s.T)
			if et == nil {
				fv.sfail("backing() of a non-slice")
			}
			key, _ := fv.elemComp(et)
			return []modTarget{{key: key, ref: fv.ownedBase(env, x.Args[0], s)}}
		case "fields":
			p := fv.spec(env, x.Args[0])
			pt, ok := p.T.Underlying().(*types.Pointer)
			if !ok {
				fv.sfail("fields() of a non-pointer")
			}
			named, sty := structOf(pt.Elem())
			var out []modTarget
			for i := 0; i < sty.NumFields(); i++ {
				key, _ := fv.fieldComp(named, sty.Field(i))
				out = append(out, modTarget{key: key, ref: p.S})
			}
			return out
		case "every":
			// every(p.f): field f of every object (the contract states what stays unchanged explicitly)
			ts := fv.modTarget(env, x.Args[0])
			for i := range ts {
				ts[i].ref, ts[i].lo, ts[i].hi = "", "", ""
			}
			return ts
		case "calls":
			var out []modTarget
			out = append(out, modTarget{key: fv.callsComp("len", "")}, modTarget{key: fv.callsComp("ret", "")})
			f := fv.spec(env, x.Args[0])
			at := fv.yieldArgType(f)
			out = append(out, modTarget{key: fv.callsComp("arg", fv.sortOf(at))})
			return out
		case "trace":
			id, ok := x.Args[0].(*SIdent)
			if !ok {
				fv.sfail("modifies trace(NAME)")
			}
			var out []modTarget
			for _, k := range fv.traceComps([]string{"trace", id.Name}) {
				out = append(out, modTarget{key: k})
			}
			return out
		case "mapof":
			m := fv.spec(env, x.Args[0])
			return fv.mapTargets(m)
		case "deref":
			p := fv.spec(env, x.Args[0])
			if p.Sort != "ElemPtr" {
				return nil // a boxed local: written back by the call itself
			}
			pt := p.T.Underlying().(*types.Pointer)
			key, _ := fv.elemComp(pt.Elem())
			return []modTarget{{key: key, ref: "(epbase " + p.S + ")", lo: "(epidx " + p.S + ")", hi: "(+ (epidx " + p.S + ") 1)"}}
		}
	case *SField:
		p := fv.spec(env, x.X)
		if named, ok := types.Unalias(p.T).(*types.Named); ok {
			if _, isIface := named.Underlying().(*types.Interface); isIface {
				if gt := fv.ghostField(named, x.Name); gt != "" {
					fv.ghostFieldTerm(env.st, named, x.Name, gt, p)
					return []modTarget{{key: "F:" + shortPkg(pkgPathOf(named.Obj())) + "." + named.Obj().Name() + "." + x.Name + "$ghost", ref: p.S}}
				}
			}
		}
		if isUserByRef(p.T) {
			p.T = types.NewPointer(p.T)
		}
		pt, ok := p.T.Underlying().(*types.Pointer)
		if !ok {
			fv.sfail("modifies %s: not a pointer field", specString(e))
		}
		named, sty := structOf(pt.Elem())
		f := findField(sty, x.Name)
		if f == nil {
			if gt := fv.ghostField(named, x.Name); gt != "" {
				t := fv.ghostFieldTerm(env.st, named, x.Name, gt, p)
				_ = t
				return []modTarget{{key: "F:" + shortPkg(pkgPathOf(named.Obj())) + "." + named.Obj().Name() + "." + x.Name + "$ghost", ref: p.S}}
			}
			fv.sfail("modifies: no field %s", x.Name)
		}
		key, _ := fv.fieldComp(named, f)
		return []modTarget{{key: key, ref: p.S}}
	case *SIdent:
		if gv := fv.lookupGhostVar(env.pc, x.Name); gv != nil {
			fv.ghostVarTerm(env, gv)
			return []modTarget{{key: "G:" + gv.Name}}
		}
		// a map-typed or pointer variable: all of its contents
		v := fv.spec(env, x)
		if _, ok := underMap(v.T); ok {
			return fv.mapTargets(v)
		}
	}
	fv.sfail("unsupported modifies target %s", specString(e))
	return nil
}

func (fv *FV) havoc(st *State, targets []modTarget) {
	for _, t := range targets {
		sort := fv.compSort[t.key]
		if t.ref == "" {
			n := fv.fresh("H."+t.key, sort)
			fv.heapSet(st, t.key, n)
			if fv.compKind[t.key] != "" || sort == arr(sInt, sSlice) {
				fv.wfAxiomsGuarded(st, t.key, n)
			}
			continue
		}
		is, es := arraySorts(sort)
		n := fv.fresh("h."+t.key, es)
		cur := fv.heapGet(st, t.key)
		if is == sInt && (strings.HasPrefix(t.key, "F:") || strings.HasPrefix(t.key, "E:")) && t.ref != "0" {
			// nothing of the nil object (and no backing array of a nil slice) is ever written
			fv.define(st, implies(eq(t.ref, "0"), eq(n, sel(cur, t.ref))))
		}
		fv.heapSet(st, t.key, sto(cur, t.ref, n))
		// NOTE: for a windowed target (elems(s)) the callee is *checked* to write only inside the window, but the
		// caller-side havoc is the whole backing array: the quantified "outside the window unchanged" fact made
		// unrelated queries 100x slower (measured on queue.Add). Contracts that need it state it explicitly with
		// unchanged_outside(s).
		if es == sSlice {
			fv.assumeWF(st, Term{S: n, Sort: sSlice})
		}
		if fv.compKind[t.key] == "ptr" {
			fv.assume(st, and(app(">=", n, "0"), sel(fv.allocTerm(st), n)))
		}
	}
}

func (fv *FV) wfAxiomsGuarded(st *State, key, c string) {
	sort := fv.compSort[key]
	alloc := fv.allocTerm(st)
	if sort == arr(sInt, sSlice) {
		fv.define(st, fmt.Sprintf("(forall ((r Int)) (! (let ((s (select %s r))) (and (<= 0 (soff s)) (<= 0 (slen s)) (<= (slen s) (scap s)) (=> (= (sbase s) 0) (= (scap s) 0)))) :pattern ((select %s r))))", c, c))
	}
	_ = alloc
}

// ---------------------------------------------------------------------------
// calls through function values

func (fv *FV) roleOf(st *State, fun ast.Expr) (string, Term) {
	switch f := fun.(type) {
	case *ast.SelectorExpr:
		if sel := fv.info.Selections[f]; sel != nil && sel.Kind() == types.FieldVal {
			base := fv.evalExpr(st, f.X)
			ft := fv.fieldTerm(st, base, f.Sel.Name)
			t := base.T
			if p, ok := t.Underlying().(*types.Pointer); ok {
				t = p.Elem()
			}
			if named, _ := structOf(t); named != nil {
				if pc := fv.w.contracts[pkgPathOf(named.Obj())]; pc != nil {
					if r := pc.FieldRole[named.Obj().Name()+"."+f.Sel.Name]; r != "" {
						return r, ft
					}
				}
			}
			return "", ft
		}
	case *ast.Ident:
		v := fv.evalExpr(st, f)
		if fv.fc != nil {
			if r := fv.fc.Roles[f.Name]; r != "" {
				return r, v
			}
		}
		if r := fv.localRoles[fv.info.ObjectOf(f)]; r != "" {
			return r, v
		}
		return "", v
	}
	return "", Term{}
}

func (fv *FV) callValue(st *State, fun ast.Expr, c *ast.CallExpr) []Term {
	// local closure?
	if id, ok := fun.(*ast.Ident); ok {
		if cl := fv.closures[fv.info.ObjectOf(id)]; cl != nil {
			return fv.callClosure(st, cl, c)
		}
	}
	role, f := fv.roleOf(st, fun)
	if role == "" {
		if id, ok := fun.(*ast.Ident); ok {
			if cands := fv.funcCands[fv.info.ObjectOf(id)]; len(cands) > 0 {
				return fv.callCandidates(st, f, cands, c, fv.src(fun))
			}
		}
		fv.fail(c.Pos(), "call of function value %s: no role declared", fv.src(fun))
	}
	var args []Term
	for _, a := range c.Args {
		args = append(args, fv.evalExpr(st, a))
	}
	return fv.applyRole(st, role, f, args, c.Pos(), fv.src(fun))
}

func (fv *FV) applyRole(st *State, role string, f Term, args []Term, pos token.Pos, what string) []Term {
	rf := strings.Fields(role)
	switch rf[0] {
	case "ord":
		if len(args) != 2 {
			fv.fail(pos, "ord role needs two arguments")
		}
		return []Term{fv.ordTerm(f, args[0], args[1])}
	case "pred":
		return []Term{fv.predTerm(f, args[0])}
	case "eq":
		return []Term{fv.eqfTerm(f, args[0], args[1])}
	case "eqv":
		return []Term{fv.eqvTerm(f, args[0], args[1])}
	case "yield":
		at := args[0]
		kl, ka, kr := fv.callsComp("len", ""), fv.callsComp("arg", at.Sort), fv.callsComp("ret", "")
		n := fv.heapGet(st, kl)
		n0 := fv.heapGet(fv.entry, kl)
		fv.oblige(st, "yield.protocol["+what+"]", implies(app(">", n, n0), sel(fv.heapGet(st, kr), app("-", n, "1"))), "the callback is not called again after it returned false", nil, pos)
		r := fv.fresh("yret", sBool)
		fv.heapSet(st, ka, sto(fv.heapGet(st, ka), n, at.S))
		fv.heapSet(st, kr, sto(fv.heapGet(st, kr), n, r))
		fv.heapSet(st, kl, app("+", n, "1"))
		return []Term{{S: r, Sort: sBool, T: types.Typ[types.Bool]}}
	case "report":
		// report GHOSTMAP KEYFUNC: f(v, pos) records pos for key(v) when f is a reporter
		return fv.applyReport(st, rf, f, args, pos)
	case "pure":
		return []Term{fv.pureApp(f, args)}
	case "havoc":
		return nil
	case "trace":
		return fv.applyTrace(st, rf, f, args, pos)
	}
	fv.fail(pos, "unknown role %q", role)
	return nil
}

// lockOp: x.mu.Lock() / x.mu.Unlock() on the mutex field of the object x. The monitor is tracked by the ghost
// component held[x]; guarded fields may only be touched while it is set.
func (fv *FV) lockOp(st *State, op string, recvExpr ast.Expr, c *ast.CallExpr) {
	se, ok := ast.Unparen(recvExpr).(*ast.SelectorExpr)
	if !ok {
		fv.fail(c.Pos(), "mutex operation on %s", fv.src(recvExpr))
	}
	owner := fv.evalExpr(st, se.X)
	fv.heldDecl()
	held := fv.heapGet(st, "L:held")
	fv.assumptions["sync.Mutex: Lock/Unlock are modelled by the ghost flag held[object]; mutual exclusion and the happens-before edges of the Go memory model are assumed"] = true
	if op == "Lock" {
		fv.oblige(st, "lock.notheld["+fv.src(c)+"]", not(sel(held, owner.S)), "the mutex is not acquired twice (self-deadlock)", nil, c.Pos())
		fv.heapSet(st, "L:held", sto(held, owner.S, "true"))
		// one critical section per call: the argument that every concurrent history is equivalent to a sequential one
		// (each method takes effect atomically, in lock-acquisition order) needs each method to acquire the object's
		// mutex at most once; acq[x] counts the acquisitions made by this call
		fv.compSort["L:acq"] = arr(sInt, sInt)
		if !fv.declared["L:acq:init"] {
			fv.declared["L:acq:init"] = true
			fv.axioms = append(fv.axioms, eq(fv.heapGet(fv.entry, "L:acq"), "((as const (Array Int Int)) 0)"))
		}
		acq := fv.heapGet(st, "L:acq")
		fv.oblige(st, "lock.once["+fv.src(c)+"]", eq(sel(acq, owner.S), "0"), "the mutex is acquired at most once per call (one critical section: the method is atomic)", nil, c.Pos())
		fv.heapSetNoFrame(st, "L:acq", sto(acq, owner.S, app("+", sel(acq, owner.S), "1")))
		return
	}
	fv.oblige(st, "lock.held["+fv.src(c)+"]", sel(held, owner.S), "Unlock of a mutex that is held", nil, c.Pos())
	fv.heapSet(st, "L:held", sto(held, owner.S, "false"))
}

// guardCheck: reading or writing a field guarded by the object's mutex requires the mutex to be held.
func (fv *FV) guardCheck(st *State, base Term, field string, what string, pos token.Pos) {
	pt, ok := base.T.Underlying().(*types.Pointer)
	if !ok {
		return
	}
	named, _ := structOf(pt.Elem())
	if named == nil {
		return
	}
	pc := fv.w.contracts[pkgPathOf(named.Obj())]
	if pc == nil {
		return
	}
	for _, g := range pc.Guards[named.Obj().Name()] {
		if g == field {
			fv.heldDecl()
			fv.oblige(st, "lock.guard["+what+"]", sel(fv.heapGet(st, "L:held"), base.S), "field "+field+" is accessed only while the mutex is held: "+what, nil, pos)
		}
	}
}

// havocObject gives every field of the fresh by-reference struct object ref an arbitrary well-formed value.
func (fv *FV) havocObject(st *State, ref string, t types.Type) {
	named, sty := structOf(t)
	if sty == nil || named == nil {
		return
	}
	for j := 0; j < sty.NumFields(); j++ {
		f := sty.Field(j)
		key, sort := fv.fieldComp(named, f)
		if isUserByRef(f.Type()) {
			e := fv.allocEmbedded(st, key, ref, f.Type(), token.NoPos)
			fv.heapSetNoFrame(st, key, sto(fv.heapGet(st, key), ref, e))
			fv.havocObject(st, e, f.Type())
			continue
		}
		_, es := arraySorts(sort)
		v := Term{S: fv.fresh("fld."+f.Name(), es), Sort: es, T: f.Type()}
		fv.heapSetNoFrame(st, key, sto(fv.heapGet(st, key), ref, v.S))
		fv.assumeWF(st, v)
	}
}

// heldDecl declares the ghost flag held[object] of the mutex model and states that an object that does not exist when
// the function is entered is not held then (a mutex is created unlocked).
func (fv *FV) heldDecl() {
	fv.compSort["L:held"] = arr(sInt, sBool)
	if fv.declared["ax:held-fresh"] {
		return
	}
	fv.declared["ax:held-fresh"] = true
	held0 := fv.heapGet(fv.entry, "L:held")
	alloc0 := fv.allocTerm(fv.entry)
	fv.axioms = append(fv.axioms, fmt.Sprintf("(forall ((r Int)) (! (=> (not (select %s r)) (not (select %s r))) :pattern ((select %s r))))", alloc0, held0, held0))
}
