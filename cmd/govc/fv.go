package main

// Function verifier: symbolic state, declarations, obligations.

import (
	"fmt"
	"go/ast"
	"go/token"
	"go/types"
	"sort"
	"strings"
)

type State struct {
	vars  map[types.Object]Term
	ghost map[string]Term
	heap  map[string]Term
	guard string
	facts []int
}

func (s *State) clone() *State {
	n := &State{vars: make(map[types.Object]Term, len(s.vars)), ghost: make(map[string]Term, len(s.ghost)), heap: make(map[string]Term, len(s.heap)), guard: s.guard}
	for k, v := range s.vars {
		n.vars[k] = v
	}
	for k, v := range s.ghost {
		n.ghost[k] = v
	}
	for k, v := range s.heap {
		n.heap[k] = v
	}
	n.facts = append([]int(nil), s.facts...)
	return n
}

type Obligation struct {
	Name    string
	Func    string
	Kind    string
	Desc    string
	Tags    []string
	Query   string
	Region  string // SMT term: known-finding region evaluated at this point ("" if none)
	Result  SolverResult
	RegionResult *SolverResult
	Finding *Finding
	Vacuity bool // expected sat
	Pos     string
	Vars    []ModelVar // variables of interest for counterexample extraction
	CexQuery string
}

type ModelVar struct {
	Name string
	Term string
	Sort string
}

type unsupported struct{ msg string }

func (u unsupported) Error() string { return u.msg }

type FV struct {
	pendingIt, pendingItBound string
	pendingItTerm Term
	closureRet    []*closureRetCtx // returns of a function literal being executed as the body of a yield loop
	inYieldCall   int
	litStmts      map[*ast.FuncLit]ast.Stmt
	rangeCallback *Term // the callback value of a synthetic call made for `range recv.M`
	skolemCount int
	inReturn  int               // > 0 while the operands of a return statement are evaluated
	trigSorts map[string]string // sort of every trigger term written in a contract (key: the term's text)
	curResults []Term // values being returned, while the ghost statements anchored at a return run
	funcConstNames []string
	funcCands map[types.Object][]funcCand // locals that only ever hold known functions
	w     *World
	fi    *FuncInfo
	pkg   *types.Package
	info  *types.Info
	pc    *PkgContracts
	fc    *FuncContract

	decls    []string
	declared map[string]bool
	axioms   []string
	facts    []string
	nfresh   int
	obls     []*Obligation
	oblNames map[string]int
	entry    *State
	written  map[string]bool
	compSort map[string]string
	compKind map[string]string // "ptr", "slice", "" for alloc closure facts
	loopOrd  map[ast.Stmt]int
	retOrd   int
	ctx      []*loopCtx
	results  []types.Object // named or synthesized result variables
	resNames []string
	tparams  map[string]bool
	findings []*Finding
	assumptions map[string]bool
	callOrd  map[string]int
	lemmaMode bool
	deferred []func(st *State)
	trace    bool
	entryNames  map[string]Term
	localRoles  map[types.Object]string
	localRolesTmp int
	closures    map[types.Object]*closure
	lastClosure *closure
	closureIsOrd map[string]bool
	divCache map[string][2]string
	termNames map[string]string
	bagSorts  map[string]bool
	bagUse    int
	pendingFacts []string // instances recorded by bagstep(), assumed by the enclosing ghost assert / lemma hint
	inSwap    bool
	prop      string // property whose contract slice is being verified ("" = all clauses)
	ghostLoops map[*GhostStmt]map[int]bool
	loopNest  map[int][]int // loop ordinal → ordinals of the enclosing loops
	traceTypes map[string]types.Type
	tables    map[*types.Var]*tableNode
	strLits   map[string]string
}

// tagOK: a clause tagged with property ids belongs to the current verification only if it names the current
// property; untagged clauses always belong.
func (fv *FV) tagOK(tags []string) bool {
	if fv.prop == "" || len(tags) == 0 {
		return true
	}
	for _, t := range tags {
		if t == fv.prop {
			return true
		}
	}
	return false
}

type loopCtx struct {
	label     string
	breaks    []*State
	continues []*State
}

func newFV(w *World, fi *FuncInfo) *FV {
	fv := &FV{w: w, fi: fi, pkg: fi.Pkg.Types, info: fi.Pkg.TypesInfo, pc: fi.PC, fc: fi.Contract,
		declared: map[string]bool{}, oblNames: map[string]int{}, written: map[string]bool{}, compSort: map[string]string{}, compKind: map[string]string{},
		loopNest: map[int][]int{}, traceTypes: map[string]types.Type{}, bagSorts: map[string]bool{}, localRoles: map[types.Object]string{}, closures: map[types.Object]*closure{}, closureIsOrd: map[string]bool{},
		loopOrd: map[ast.Stmt]int{}, tparams: map[string]bool{}, assumptions: map[string]bool{}, callOrd: map[string]int{}}
	fv.decls = append(fv.decls,
		"(declare-datatypes ((Slice 0)) (((mk-slice (sbase Int) (soff Int) (slen Int) (scap Int)))))",
		"(declare-datatypes ((Str 0)) (((mk-str (strbase Int) (stroff Int) (strlen Int)))))",
		"(declare-fun strdata (Int Int) (_ BitVec 8))",
		// at$ is addition, known to the solver only through a triggered axiom. The address of s[k] is written
		// (at$ (soff s) k) so that quantifier patterns over slice elements contain no arithmetic: E-matching is
		// syntactic, the solvers reorder and flatten sums ((+ off (+ a 1)) becomes (+ 1 off a); even (+ off i) is
		// stored as (+ i off) when i was declared first), and a pattern (+ off k) then matches by luck or not at all
		"(declare-fun at$ (Int Int) Int)",
	)
	fv.axioms = append(fv.axioms, "(forall ((o Int) (k Int)) (! (= (at$ o k) (+ o k)) :pattern ((at$ o k))))")
	return fv
}

// elemAddr is the address of element idx of slice term s within its backing array (see at$ in newFV).
func elemAddr(s, idx string) string { return "(at$ (soff " + s + ") " + idx + ")" }

func (fv *FV) fail(pos token.Pos, format string, args ...interface{}) {
	p := ""
	if pos.IsValid() {
		pp := fv.w.fset.Position(pos)
		p = fmt.Sprintf("%s:%d: ", shortFile(pp.Filename), pp.Line)
	}
	panic(unsupported{p + fmt.Sprintf(format, args...)})
}

func shortFile(f string) string {
	if strings.HasPrefix(f, repoDir+"/") {
		return f[len(repoDir)+1:]
	}
	return f
}

func (fv *FV) fresh(prefix, sort string) string {
	fv.nfresh++
	name := fmt.Sprintf("%s!%d", cleanName(prefix), fv.nfresh)
	fv.decls = append(fv.decls, fmt.Sprintf("(declare-const %s %s)", name, sort))
	return name
}

// symName makes a Go identifier usable inside an SMT-LIB symbol: identifiers may contain any Unicode letter (stree.Tree
// has a field β), simple symbols may not.
func symName(s string) string {
	var b strings.Builder
	for _, c := range s {
		if c < 128 {
			b.WriteRune(c)
		} else {
			fmt.Fprintf(&b, "u%04X", c)
		}
	}
	return b.String()
}

func cleanName(s string) string {
	var b strings.Builder
	for _, c := range s {
		switch {
		case c >= 'a' && c <= 'z', c >= 'A' && c <= 'Z', c >= '0' && c <= '9', c == '_', c == '.', c == '$':
			b.WriteRune(c)
		default:
			b.WriteByte('_')
		}
	}
	return b.String()
}

func (fv *FV) declare(name, cmd string) {
	if fv.declared[name] {
		return
	}
	fv.declared[name] = true
	fv.decls = append(fv.decls, cmd)
}

func (fv *FV) declareSort(name string) {
	fv.declare("sort:"+name, fmt.Sprintf("(declare-sort %s 0)", name))
}

// addFact records a formula assumed under the state's guard.
func (fv *FV) assume(st *State, phi string) {
	if phi == "true" {
		return
	}
	// one assertion per conjunct, each directly under its (merged) guard: a quantifier buried in
	// `(=> g (and … (=> h (and … (forall …)))))` is instantiated far less reliably than the same quantifier under
	// `(=> (and g h) (forall …))` (measured on the cursor invariants: a needed instance was never produced)
	for _, part := range flattenFact(phi) {
		f := implies(st.guard, part)
		fv.facts = append(fv.facts, f)
		st.facts = append(st.facts, len(fv.facts)-1)
	}
}

// define records a definitional (unguarded) fact.
func (fv *FV) define(st *State, phi string) {
	fv.facts = append(fv.facts, phi)
	st.facts = append(st.facts, len(fv.facts)-1)
}

func (fv *FV) newGuard(st *State, cond string) string {
	g := and(st.guard, cond)
	if len(g) < 40 {
		return g
	}
	name := fv.fresh("g", sBool)
	fv.define(st, eq(name, g))
	return name
}

// ---------------------------------------------------------------------------
// sorts

func (fv *FV) sortOf(t types.Type) string {
	switch x := t.(type) {
	case *types.Basic:
		switch x.Kind() {
		case types.Bool, types.UntypedBool:
			return sBool
		case types.String, types.UntypedString:
			return sStr
		case types.Uint8:
			return sBV8
		case types.Uint64:
			return sBV64
		case types.UnsafePointer:
			fv.declare("sort:ElemPtr", "(declare-datatypes ((ElemPtr 0)) (((mk-eptr (epbase Int) (epidx Int)))))")
			return "ElemPtr"
		}
		if x.Info()&types.IsInteger != 0 || x.Kind() == types.UntypedNil || x.Kind() == types.UntypedRune {
			return sInt
		}
		fv.fail(token.NoPos, "unsupported basic type %s", x)
	case *types.TypeParam:
		if ct := coreType(x); ct != nil {
			return fv.sortOf(ct)
		}
		name := "T_" + x.Obj().Name()
		fv.declareSort(name)
		return name
	case *types.Pointer:
		if _, isStruct := x.Elem().Underlying().(*types.Struct); isStruct {
			return sInt
		}
		fv.declare("sort:ElemPtr", "(declare-datatypes ((ElemPtr 0)) (((mk-eptr (epbase Int) (epidx Int)))))")
		return "ElemPtr"
	case *types.Map, *types.Signature, *types.Interface, *types.Chan:
		return sInt
	case *types.Slice:
		return sSlice
	case *types.Array:
		// a local array is its own freshly allocated backing array, seen through a slice of constant length
		// (declared with `var a [N]T` only; copying assignments and composite literals are rejected where they occur)
		return sSlice
	case *types.Named:
		if x.Obj().Pkg() != nil && x.Obj().Pkg().Path() == "verif/ghost" {
			return x.Obj().Name()
		}
		if st, ok := x.Underlying().(*types.Struct); ok {
			if isOpaqueStruct(x) {
				return sInt // library objects (bytes.Buffer, …) are handled by reference, through ghost fields
			}
			return fv.structSort(x, st)
		}
		return fv.sortOf(x.Underlying())
	case *types.Alias:
		return fv.sortOf(types.Unalias(x))
	case *types.Struct:
		return fv.structSort(nil, x)
	case *types.Tuple:
		fv.fail(token.NoPos, "tuple type has no sort")
	case *specType:
		return x.sort
	}
	fv.fail(token.NoPos, "unsupported type %v (%T)", t, t)
	return ""
}

// specType is a types.Type used for spec-only sorts (sets, sequences, abstract keys).
type specType struct {
	sort string
	elem types.Type
	key  types.Type
}

func (s *specType) Underlying() types.Type { return s }
func (s *specType) String() string         { return "spec:" + s.sort }

func coreType(tp *types.TypeParam) types.Type {
	iface, ok := tp.Constraint().Underlying().(*types.Interface)
	if !ok {
		return nil
	}
	var core types.Type
	for i := 0; i < iface.NumEmbeddeds(); i++ {
		et := iface.EmbeddedType(i)
		if u, ok := et.(*types.Union); ok {
			if u.Len() != 1 {
				return nil
			}
			core = u.Term(0).Type().Underlying()
		}
	}
	if core != nil {
		if _, ok := core.(*types.Slice); ok {
			return core
		}
	}
	return nil
}

func (fv *FV) structSort(named *types.Named, st *types.Struct) string {
	var name string
	if named != nil {
		name = "S_" + cleanName(shortPkg(pkgPathOf(named.Obj()))+"."+named.Obj().Name())
		if ta := named.TypeArgs(); ta != nil {
			for i := 0; i < ta.Len(); i++ {
				name += "_" + cleanName(fv.sortOf(ta.At(i)))
			}
		}
	} else {
		name = "S_anon" + cleanName(st.String())
	}
	if fv.declared["sort:"+name] {
		return name
	}
	fv.declared["sort:"+name] = true
	var fields []string
	for i := 0; i < st.NumFields(); i++ {
		f := st.Field(i)
		if _, isArr := f.Type().Underlying().(*types.Array); isArr {
			fv.fail(token.NoPos, "unsupported type: struct field %s of array type (copied with the struct)", f.Name())
		}
		fields = append(fields, fmt.Sprintf("(%s_%s %s)", name, symName(f.Name()), fv.sortOf(f.Type())))
	}
	if len(fields) == 0 {
		fields = append(fields, fmt.Sprintf("(%s__unit Int)", name))
	}
	fv.decls = append(fv.decls, fmt.Sprintf("(declare-datatypes ((%s 0)) (((mk-%s %s))))", name, name, strings.Join(fields, " ")))
	return name
}

func pkgPathOf(o types.Object) string {
	if o.Pkg() == nil {
		return ""
	}
	return o.Pkg().Path()
}

// zero value of a type
func (fv *FV) zero(t types.Type) Term {
	s := fv.sortOf(t)
	return Term{S: fv.zeroOfSort(s, t), Sort: s, T: t}
}

func (fv *FV) zeroOfSort(s string, t types.Type) string {
	switch {
	case s == sInt:
		return "0"
	case s == sBool:
		return "false"
	case s == sSlice:
		return "(mk-slice 0 0 0 0)"
	case s == sStr:
		return "(mk-str 0 0 0)"
	case isBV(s):
		return fmt.Sprintf("(_ bv0 %d)", bvWidth(s))
	case s == "ElemPtr":
		return "(mk-eptr 0 0)"
	case strings.HasPrefix(s, "S_"):
		if t != nil {
			if st, ok := t.Underlying().(*types.Struct); ok {
				var fs []string
				for i := 0; i < st.NumFields(); i++ {
					fs = append(fs, fv.zero(st.Field(i).Type()).S)
				}
				if len(fs) == 0 {
					fs = []string{"0"}
				}
				return "(mk-" + s + " " + strings.Join(fs, " ") + ")"
			}
		}
	}
	name := "zero$" + cleanName(s)
	fv.declare(name, fmt.Sprintf("(declare-const %s %s)", name, s))
	return name
}

// ---------------------------------------------------------------------------
// heap components

func (fv *FV) fieldComp(st *types.Named, f *types.Var) (key, sort string) {
	fs := fv.sortOf(f.Type())
	key = "F:" + shortPkg(pkgPathOf(st.Obj())) + "." + st.Obj().Name() + "." + symName(f.Name())
	if fs != sInt && fs != sBool && fs != sSlice {
		key += "$" + cleanName(fs)
	}
	sort = arr(sInt, fs)
	fv.compSort[key] = sort
	switch f.Type().Underlying().(type) {
	case *types.Pointer:
		fv.compKind[key] = "ptr"
	case *types.Slice:
		fv.compKind[key] = "slice"
	}
	if isOpaqueStruct(f.Type()) {
		fv.compKind[key] = "emb"
	}
	return
}

func (fv *FV) elemComp(elem types.Type) (key, sort string) {
	es := fv.sortOf(elem)
	key = "E:" + es
	sort = arr(sInt, arr(sInt, es))
	if es == sInt && isRefType(elem) {
		// arrays of references (pointers to structs, maps) are kept apart from arrays of integers, so that
		// "every stored reference is allocated" can be stated for them
		key = "E:Int#ref"
		fv.compKind[key] = "refelems"
	}
	fv.compSort[key] = sort
	return
}

func isRefType(t types.Type) bool {
	switch u := types.Unalias(t).Underlying().(type) {
	case *types.Map:
		return true
	case *types.Pointer:
		_, isStruct := u.Elem().Underlying().(*types.Struct)
		return isStruct
	}
	return false
}

func compConst(key string) string { return "|" + key + "@0|" }

// heapGet returns the current term of a heap component, creating the entry constant on demand.
func (fv *FV) heapGet(st *State, key string) string {
	if t, ok := st.heap[key]; ok {
		return t.S
	}
	sort := fv.compSort[key]
	if sort == "" {
		fv.fail(token.NoPos, "internal: unknown heap component %s", key)
	}
	c := compConst(key)
	if !fv.declared["comp:"+key] {
		fv.declared["comp:"+key] = true
		fv.decls = append(fv.decls, fmt.Sprintf("(declare-const %s %s)", c, sort))
		fv.wfAxioms(key, c, compConst("alloc"))
	}
	return c
}

func (fv *FV) heapSet(st *State, key, term string) {
	st.heap[key] = Term{S: term, Sort: fv.compSort[key]}
	fv.written[key] = true
}

// wfAxioms states the well-formedness of a component (as a global, unguarded fact about that constant):
// slice headers are well-formed; references stored in allocated objects are allocated.
func (fv *FV) wfAxioms(key, c, alloc string) {
	fv.ensureAlloc()
	sort := fv.compSort[key]
	if sort == arr(sInt, sSlice) {
		fv.axioms = append(fv.axioms, fmt.Sprintf("(forall ((r Int)) (! (let ((s (select %s r))) (and (<= 0 (soff s)) (<= 0 (slen s)) (<= (slen s) (scap s)) (=> (= (sbase s) 0) (= (scap s) 0)) (=> (select %s r) (select %s (sbase s))))) :pattern ((select %s r))))", c, alloc, alloc, c))
	}
	if fv.compKind[key] == "ptr" {
		fv.axioms = append(fv.axioms, fmt.Sprintf("(forall ((r Int)) (! (=> (select %s r) (select %s (select %s r))) :pattern ((select %s r))))", alloc, alloc, c, c))
	}
	if fv.compKind[key] == "emb" {
		// an embedded library object always exists
		fv.axioms = append(fv.axioms, fmt.Sprintf("(forall ((r Int)) (! (> (select %s r) 0) :pattern ((select %s r))))", c, c))
		// the embedded object lives as long as its owner and belongs to exactly one owner
		own := "owner$" + cleanName(key)
		fv.declare(own, fmt.Sprintf("(declare-fun %s (Int) Int)", own))
		fv.axioms = append(fv.axioms, fmt.Sprintf("(forall ((r Int)) (! (=> (select %s r) (and (select %s (select %s r)) (= (%s (select %s r)) r))) :pattern ((select %s r))))", alloc, alloc, c, own, c, c))
	}
	if fv.compKind[key] == "refelems" {
		fv.axioms = append(fv.axioms, fmt.Sprintf("(forall ((r Int) (x Int)) (! (=> (select %s r) (select %s (select (select %s r) x))) :pattern ((select (select %s r) x))))", alloc, alloc, c, c))
	}
	if fv.compKind[key] == "mapdom" {
		// the nil map has no keys
		_, inner := arraySorts(sort)
		ks, _ := arraySorts(inner)
		fv.axioms = append(fv.axioms, eq(sel(c, "0"), fv.emptyDom(ks)))
	}
	if sort == arr(sInt, arr(sInt, sSlice)) && fv.paramHasNestedSlices() {
		fv.axioms = append(fv.axioms, fmt.Sprintf("(forall ((r Int) (x Int)) (! (let ((s (select (select %s r) x))) (and (<= 0 (soff s)) (<= 0 (slen s)) (<= (slen s) (scap s)) (=> (= (sbase s) 0) (= (scap s) 0)) (select %s (sbase s)))) :pattern ((select (select %s r) x))))", c, alloc, c))
	}
}

func (fv *FV) ensureAlloc() {
	if fv.declared["comp:alloc"] {
		return
	}
	fv.declared["comp:alloc"] = true
	fv.compSort["alloc"] = arr(sInt, sBool)
	fv.decls = append(fv.decls, fmt.Sprintf("(declare-const %s (Array Int Bool))", compConst("alloc")))
	fv.axioms = append(fv.axioms, fmt.Sprintf("(select %s 0)", compConst("alloc")))
}

func (fv *FV) allocTerm(st *State) string {
	fv.ensureAlloc()
	if t, ok := st.heap["alloc"]; ok {
		return t.S
	}
	return compConst("alloc")
}

// newRef allocates a fresh reference.
func (fv *FV) newRef(st *State, hint string) string {
	r := fv.fresh(hint, sInt)
	a := fv.allocTerm(st)
	fv.define(st, and(app(">", r, "0"), not(sel(a, r))))
	st.heap["alloc"] = Term{S: sto(a, r, "true"), Sort: arr(sInt, sBool)}
	return r
}

// ---------------------------------------------------------------------------
// obligations

func (fv *FV) oblName(kind string) string {
	base := fv.fi.FullName() + "#" + kind
	fv.oblNames[base]++
	if n := fv.oblNames[base]; n > 1 {
		return fmt.Sprintf("%s~%d", base, n)
	}
	return base
}

func (fv *FV) query(st *State, extra []string, goal string) string {
	var b strings.Builder
	b.WriteString("(set-option :produce-models true)\n(set-logic ALL)\n")
	// the declarations are filled in when the function is finished (finalizeQueries): a component may be declared
	// after a fact that mentions it was recorded
	b.WriteString(declsMarker + "\n")
	for _, a := range fv.axioms {
		b.WriteString("(assert " + a + ")\n")
	}
	for _, i := range st.facts {
		b.WriteString("(assert " + fv.facts[i] + ")\n")
	}
	if st.guard != "true" {
		b.WriteString("(assert " + st.guard + ")\n")
	}
	for _, e := range extra {
		b.WriteString("(assert " + e + ")\n")
	}
	b.WriteString("(assert " + goal + ")\n(check-sat)\n")
	return b.String()
}

const declsMarker = ";;DECLARATIONS;;"

// finalizeQueries puts the complete list of declarations into every query of the function.
func (fv *FV) finalizeQueries() {
	all := strings.Join(fv.decls, "\n")
	for _, o := range fv.obls {
		o.Query = strings.Replace(o.Query, declsMarker, all, 1)
		o.CexQuery = strings.Replace(o.CexQuery, declsMarker, all, 1)
	}
}

// goalQuery is query for "prove phi": the goal is skolemised first (skolem.go).
func (fv *FV) goalQuery(st *State, extra []string, phi string) string {
	decls, hyps, rest, ok := fv.skolemizeGoal(phi)
	if !ok || (len(decls) == 0 && len(hyps) == 0) {
		return fv.query(st, extra, not(phi))
	}
	q := fv.query(st, append(append([]string{}, extra...), hyps...), not(rest))
	// the constants have to be declared before the assertions that use them
	k := strings.Index(q, "(assert ")
	if k < 0 {
		k = len(q)
	}
	return q[:k] + strings.Join(decls, "\n") + "\n" + q[k:]
}

// oblige emits the obligation "under st, phi holds".
func (fv *FV) oblige(st *State, kind, phi, desc string, tags []string, pos token.Pos) *Obligation {
	if phi == "true" {
		// trivially true: still counted, discharged syntactically
		phi = "true"
	}
	o := &Obligation{Name: fv.oblName(kind), Func: fv.fi.FullName(), Kind: kind, Desc: desc, Tags: tags}
	if pos.IsValid() {
		p := fv.w.fset.Position(pos)
		o.Pos = fmt.Sprintf("%s:%d", shortFile(p.Filename), p.Line)
	}
	o.Query = fv.goalQuery(st, nil, phi)
	o.CexQuery = o.Query
	// known-finding region
	for _, f := range fv.findings {
		if f.Obligation == o.Name && f.RegionExpr != nil {
			env := fv.localEnv(st, pos)
			env.groundDiv = true
			r := fv.spec(env, f.RegionExpr)
			o.Region = r.S
			o.Finding = f
			o.Query = fv.goalQuery(st, nil, phi) // unchanged; region query built on demand
			o.CexQuery = fv.goalQuery(st, []string{not(r.S)}, phi)
		}
	}
	o.Vars = fv.modelVars(st)
	fv.obls = append(fv.obls, o)
	return o
}

// vacuity check: the facts and guard of st must be satisfiable.
func (fv *FV) obligeSat(st *State, kind, desc string) {
	o := &Obligation{Name: fv.oblName(kind), Func: fv.fi.FullName(), Kind: kind, Desc: desc, Vacuity: true}
	o.Query = fv.query(st, nil, "true")
	fv.obls = append(fv.obls, o)
}

func (fv *FV) modelVars(st *State) []ModelVar {
	var out []ModelVar
	for o, t := range st.vars {
		out = append(out, ModelVar{o.Name(), t.S, t.Sort})
	}
	sort.Slice(out, func(i, j int) bool { return out[i].Name < out[j].Name })
	return out
}

// merge joins states at a control-flow join.
func (fv *FV) merge(states ...*State) *State {
	var live []*State
	for _, s := range states {
		if s != nil {
			live = append(live, s)
		}
	}
	if len(live) == 0 {
		return nil
	}
	if len(live) == 1 {
		return live[0]
	}
	out := &State{vars: map[types.Object]Term{}, ghost: map[string]Term{}, heap: map[string]Term{}}
	// facts: sorted union
	seen := map[int]bool{}
	for _, s := range live {
		for _, f := range s.facts {
			if !seen[f] {
				seen[f] = true
				out.facts = append(out.facts, f)
			}
		}
	}
	sort.Ints(out.facts)
	var gs []string
	for _, s := range live {
		gs = append(gs, s.guard)
	}
	g := or(gs...)
	if len(g) >= 40 {
		name := fv.fresh("g", sBool)
		fv.define(out, eq(name, g))
		g = name
	}
	out.guard = g
	mergeTerm := func(hint string, ts []Term) Term {
		same := true
		for _, t := range ts[1:] {
			if t.S != ts[0].S {
				same = false
			}
		}
		if same {
			return ts[0]
		}
		c := fv.fresh(hint, ts[0].Sort)
		for i, t := range ts {
			fv.define(out, implies(live[i].guard, eq(c, t.S)))
		}
		r := ts[0]
		r.S = c
		r.Lit = false
		return r
	}
	for k := range live[0].vars {
		ts := make([]Term, 0, len(live))
		ok := true
		for _, s := range live {
			t, has := s.vars[k]
			if !has {
				ok = false
				break
			}
			ts = append(ts, t)
		}
		if ok {
			out.vars[k] = mergeTerm(k.Name(), ts)
		}
	}
	for k := range live[0].ghost {
		ts := make([]Term, 0, len(live))
		ok := true
		for _, s := range live {
			t, has := s.ghost[k]
			if !has {
				ok = false
				break
			}
			ts = append(ts, t)
		}
		if ok {
			out.ghost[k] = mergeTerm(k, ts)
		}
	}
	keys := map[string]bool{}
	for _, s := range live {
		for k := range s.heap {
			keys[k] = true
		}
	}
	var ks []string
	for k := range keys {
		ks = append(ks, k)
	}
	sort.Strings(ks)
	for _, k := range ks {
		ts := make([]Term, 0, len(live))
		for _, s := range live {
			if t, has := s.heap[k]; has {
				ts = append(ts, t)
			} else {
				if k == "alloc" {
					fv.ensureAlloc()
				}
				ts = append(ts, Term{S: compConst(k), Sort: fv.compSort[k]})
			}
		}
		out.heap[k] = mergeTerm("H."+k, ts)
	}
	return out
}

// paramHasNestedSlices: some parameter (or the receiver) holds slices of slices, so that slice headers stored in
// element arrays that exist at entry must be known to be well-formed. (The axiom is expensive — it fires on every
// read of such an array — and is omitted where the only arrays of slices are built by the function itself.)
func (fv *FV) paramHasNestedSlices() bool {
	sig, ok := fv.fi.Obj.Type().(*types.Signature)
	if !ok {
		return true
	}
	has := func(t types.Type) bool {
		if et := elemType(t); et != nil {
			if elemType(et) != nil {
				return true
			}
			if _, isStruct := et.Underlying().(*types.Struct); isStruct {
				return true
			}
		}
		if _, isPtr := t.Underlying().(*types.Pointer); isPtr {
			return true
		}
		return false
	}
	if sig.Recv() != nil {
		return true
	}
	for i := 0; i < sig.Params().Len(); i++ {
		if has(sig.Params().At(i).Type()) {
			return true
		}
	}
	return false
}

var opaqueStructs = map[string]bool{"bytes.Buffer": true, "bufio.Reader": true, "strings.Reader": true, "sync.Pool": true, "sync.Mutex": true, "strings.Builder": true}

// isOpaqueStruct: struct types of the standard library whose behaviour comes from assumed contracts over ghost
// fields; a value of such a type embedded in another struct is identified with a reference to it.
func isOpaqueStruct(t types.Type) bool {
	n, ok := types.Unalias(t).(*types.Named)
	if !ok || n.Obj().Pkg() == nil {
		return false
	}
	k := n.Obj().Pkg().Path() + "." + n.Obj().Name()
	return opaqueStructs[k] || userByRef[k]
}

// userByRef: struct types of the packages under contract declared `byref` in their contract file.
var userByRef = map[string]bool{}

func isUserByRef(t types.Type) bool {
	n, ok := types.Unalias(t).(*types.Named)
	if !ok || n.Obj().Pkg() == nil {
		return false
	}
	return userByRef[n.Obj().Pkg().Path()+"."+n.Obj().Name()]
}
