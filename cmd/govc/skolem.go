package main

// Goal skolemisation. The solvers are markedly weaker on `(assert (not (forall …)))` than on the same goal with
// its universally bound variables replaced by fresh constants (measured: instant `unsat` against a 20 s timeout on
// the same query), so the generator does that step itself: leading `forall` binders of a goal become constants,
// hypotheses of leading implications become separate assertions, and what is left is asserted negated.

import (
	"fmt"
	"strings"
)

type sx struct {
	atom string
	list []*sx
}

func (s *sx) String() string {
	if s.list == nil {
		return s.atom
	}
	var b strings.Builder
	b.WriteByte('(')
	for i, c := range s.list {
		if i > 0 {
			b.WriteByte(' ')
		}
		b.WriteString(c.String())
	}
	b.WriteByte(')')
	return b.String()
}

func parseSx(src string) (*sx, bool) {
	pos := 0
	var parse func() (*sx, bool)
	skip := func() {
		for pos < len(src) && (src[pos] == ' ' || src[pos] == '\n' || src[pos] == '\t') {
			pos++
		}
	}
	parse = func() (*sx, bool) {
		skip()
		if pos >= len(src) {
			return nil, false
		}
		switch src[pos] {
		case '(':
			pos++
			n := &sx{list: []*sx{}}
			for {
				skip()
				if pos >= len(src) {
					return nil, false
				}
				if src[pos] == ')' {
					pos++
					return n, true
				}
				c, ok := parse()
				if !ok {
					return nil, false
				}
				n.list = append(n.list, c)
			}
		case ')':
			return nil, false
		case '|':
			end := strings.IndexByte(src[pos+1:], '|')
			if end < 0 {
				return nil, false
			}
			a := src[pos : pos+end+2]
			pos += end + 2
			return &sx{atom: a}, true
		case '"':
			j := pos + 1
			for j < len(src) {
				if src[j] == '"' {
					if j+1 < len(src) && src[j+1] == '"' {
						j += 2
						continue
					}
					break
				}
				j++
			}
			if j >= len(src) {
				return nil, false
			}
			a := src[pos : j+1]
			pos = j + 1
			return &sx{atom: a}, true
		}
		j := pos
		for j < len(src) && !strings.ContainsRune(" \n\t()", rune(src[j])) {
			j++
		}
		a := src[pos:j]
		pos = j
		return &sx{atom: a}, true
	}
	n, ok := parse()
	if !ok {
		return nil, false
	}
	skip()
	if pos != len(src) {
		return nil, false
	}
	return n, true
}

func (s *sx) isCall(head string, n int) bool {
	return s.list != nil && len(s.list) == n && s.list[0].list == nil && s.list[0].atom == head
}

func (s *sx) subst(m map[string]string) *sx {
	if s.list == nil {
		if r, ok := m[s.atom]; ok {
			return &sx{atom: r}
		}
		return s
	}
	// an inner binder of the same name shadows (bound names are unique per depth, so this does not occur; be safe)
	out := &sx{list: make([]*sx, len(s.list))}
	for i, c := range s.list {
		out.list[i] = c.subst(m)
	}
	return out
}

// skolemizeGoal splits the goal phi (to be proved) into constant declarations, hypotheses to assert, and the
// remaining goal. ok is false when phi could not be parsed (the caller then uses phi as it is).
func (fv *FV) skolemizeGoal(phi string) (decls, hyps []string, rest string, ok bool) {
	n, ok := parseSx(phi)
	if !ok {
		return nil, nil, phi, false
	}
	intSk := map[string]bool{}
	inv := map[string]string{} // skolem constant -> the bound variable it replaced
	for {
		switch {
		case n.isCall("forall", 3) && n.list[1].list != nil:
			m := map[string]string{}
			for _, b := range n.list[1].list {
				if b.list == nil || len(b.list) != 2 || b.list[0].list != nil {
					return nil, nil, phi, false
				}
				fv.skolemCount++
				name := fmt.Sprintf("sk!%s!%d", strings.NewReplacer("?", ".", "|", "").Replace(b.list[0].atom), fv.skolemCount)
				decls = append(decls, fmt.Sprintf("(declare-const %s %s)", name, b.list[1].String()))
				m[b.list[0].atom] = name
				inv[name] = b.list[0].atom
				if b.list[1].String() == "Int" {
					intSk[name] = true
				}
			}
			body := n.list[2]
			if body.list != nil && len(body.list) >= 2 && body.list[0].list == nil && body.list[0].atom == "!" {
				// the goal's own trigger terms, at the skolem constants, stay in the query as arguments of an
				// uninterpreted marker: a hypothesis with the same trigger is then instantiated exactly there, even
				// when the conjunct being proved does not mention the term (`w[a] < w[b]` under trigger {ret[a], ret[b]})
				for i := 2; i+1 < len(body.list); i += 2 {
					if body.list[i].atom != ":pattern" || body.list[i+1].list == nil {
						continue
					}
					for _, t := range body.list[i+1].list {
						srt, ok := fv.trigSorts[t.subst(inv).String()]
						if !ok {
							continue
						}
						mark := "keep$" + cleanName(srt)
						fv.declare(mark, fmt.Sprintf("(declare-fun %s (%s) Bool)", mark, srt))
						hyps = append(hyps, "("+mark+" "+t.subst(m).String()+")")
						// an element read `(select A idx)` among them also names its address for the frame facts
						// ("elements outside the window are unchanged"), which are instantiated only at marked addresses
						if fv.declared["omark"] && t.isCall("select", 3) && t.list[2].isCall("at$", 3) {
							hyps = append(hyps, "(omark "+t.list[2].subst(m).String()+")")
						}
					}
				}
				body = body.list[1] // drop the pattern annotation
			}
			n = body.subst(m)
			continue
		case n.isCall("=>", 3):
			hyps = append(hyps, guardEqs(n.list[1], intSk).String())
			n = n.list[2]
			continue
		}
		break
	}
	return decls, hyps, n.String(), true
}

// guardEqs used to rewrite `sk = term` into a shape the solvers' preprocessing would not substitute (so that
// `(+ off sk)` kept matching patterns `(+ off b)`); element addresses are now `(at$ off k)` (fv.go), whose patterns
// match whatever the index term looks like, and the equation is left as it is.
func guardEqs(n *sx, intSk map[string]bool) *sx {
	return n
}

// flattenFact splits an assumed fact into conjuncts, pushing implications inwards:
// (and A B) → A, B;  (=> g (and A B)) → (=> g A), (=> g B);  (=> g (=> h A)) → (=> (and g h) A).
func flattenFact(phi string) []string {
	if len(phi) > 200000 {
		return []string{phi}
	}
	n, ok := parseSx(phi)
	if !ok {
		return []string{phi}
	}
	var out []string
	var walk func(guards []*sx, n *sx)
	walk = func(guards []*sx, n *sx) {
		switch {
		case n.list != nil && len(n.list) >= 2 && n.list[0].list == nil && n.list[0].atom == "and":
			for _, c := range n.list[1:] {
				walk(guards, c)
			}
			return
		case n.isCall("=>", 3):
			walk(append(append([]*sx{}, guards...), n.list[1]), n.list[2])
			return
		}
		if n.list == nil && n.atom == "true" {
			return
		}
		switch len(guards) {
		case 0:
			out = append(out, n.String())
		case 1:
			out = append(out, "(=> "+guards[0].String()+" "+n.String()+")")
		default:
			var gs []string
			for _, g := range guards {
				gs = append(gs, g.String())
			}
			out = append(out, "(=> (and "+strings.Join(gs, " ")+") "+n.String()+")")
		}
	}
	walk(nil, n)
	if len(out) == 0 {
		return nil
	}
	return out
}
