package main

// SMT terms, sorts and the solver portfolio.

import (
	"bytes"
	"context"
	"encoding/json"
	"fmt"
	"go/types"
	"os"
	"os/exec"
	"path/filepath"
	"runtime"
	"strconv"
	"strings"
	"sync"
	"sync/atomic"
	"time"
)

// Term is an SMT-LIB term with its sort and (where it comes from Go) its Go type.
type Term struct {
	S    string
	Sort string
	T    types.Type // may be nil for spec-only terms
	Lit  bool       // untyped integer literal (may be coerced to a bit-vector)
	Room string     // element pointers: number of elements from the pointer to the end of the slice it came from
	Word bool       // *uint64 obtained by converting a pointer into a byte slice (unsafe word access)
	Shared bool     // a by-reference struct value that another variable or field also holds (assignment copies it)
}

func (t Term) String() string { return t.S }

const (
	sInt   = "Int"
	sBool  = "Bool"
	sSlice = "Slice"
	sStr   = "Str"
	sBV8   = "(_ BitVec 8)"
	sBV64  = "(_ BitVec 64)"
)

func isBV(s string) bool { return strings.HasPrefix(s, "(_ BitVec") }
func bvWidth(s string) int {
	var w int
	fmt.Sscanf(s, "(_ BitVec %d)", &w)
	return w
}

func mkInt(n int64) Term {
	if n < 0 {
		return Term{S: fmt.Sprintf("(- %d)", -n), Sort: sInt, Lit: true}
	}
	return Term{S: fmt.Sprintf("%d", n), Sort: sInt, Lit: true}
}
func mkIntS(s string) Term {
	if strings.HasPrefix(s, "-") {
		return Term{S: "(- " + s[1:] + ")", Sort: sInt, Lit: true}
	}
	return Term{S: s, Sort: sInt, Lit: true}
}
func mkBool(b bool) Term {
	if b {
		return Term{S: "true", Sort: sBool}
	}
	return Term{S: "false", Sort: sBool}
}
func mkBV(v uint64, w int) Term {
	return Term{S: fmt.Sprintf("(_ bv%d %d)", v, w), Sort: fmt.Sprintf("(_ BitVec %d)", w)}
}

func app(op string, args ...string) string {
	return "(" + op + " " + strings.Join(args, " ") + ")"
}

func and(ts ...string) string {
	var xs []string
	for _, t := range ts {
		if t == "true" || t == "" {
			continue
		}
		if t == "false" {
			return "false"
		}
		xs = append(xs, t)
	}
	switch len(xs) {
	case 0:
		return "true"
	case 1:
		return xs[0]
	}
	return "(and " + strings.Join(xs, " ") + ")"
}
func or(ts ...string) string {
	var xs []string
	for _, t := range ts {
		if t == "false" || t == "" {
			continue
		}
		if t == "true" {
			return "true"
		}
		xs = append(xs, t)
	}
	switch len(xs) {
	case 0:
		return "false"
	case 1:
		return xs[0]
	}
	return "(or " + strings.Join(xs, " ") + ")"
}
func not(t string) string {
	if t == "true" {
		return "false"
	}
	if t == "false" {
		return "true"
	}
	if strings.HasPrefix(t, "(not ") && balancedTail(t[5:len(t)-1]) {
		return t[5 : len(t)-1]
	}
	return "(not " + t + ")"
}
func balancedTail(s string) bool {
	d := 0
	for i := 0; i < len(s); i++ {
		switch s[i] {
		case '(':
			d++
		case ')':
			d--
			if d < 0 {
				return false
			}
		case ' ':
			if d == 0 {
				return false
			}
		}
	}
	return d == 0
}
func implies(a, b string) string {
	if a == "true" {
		return b
	}
	if b == "true" {
		return "true"
	}
	if a == "false" {
		return "true"
	}
	return "(=> " + a + " " + b + ")"
}
func ite(c, a, b string) string {
	if c == "true" {
		return a
	}
	if c == "false" {
		return b
	}
	if a == b {
		return a
	}
	return "(ite " + c + " " + a + " " + b + ")"
}
func eq(a, b string) string {
	if a == b {
		return "true"
	}
	return "(= " + a + " " + b + ")"
}
// sel builds (select a i), simplifying a select of a store at the syntactically same index.
func sel(a, i string) string {
	for strings.HasPrefix(a, "(store ") {
		arrT, idxT, valT, ok := splitStore(a)
		if !ok {
			break
		}
		if idxT == i {
			return valT
		}
		// distinct integer literals: skip this store
		if isIntLit(idxT) && isIntLit(i) {
			a = arrT
			continue
		}
		break
	}
	return "(select " + a + " " + i + ")"
}

func isIntLit(s string) bool {
	if s == "" {
		return false
	}
	for _, c := range s {
		if c < '0' || c > '9' {
			return false
		}
	}
	return true
}

// splitStore splits "(store A I V)" into its three arguments.
func splitStore(s string) (a, i, v string, ok bool) {
	body := s[7 : len(s)-1]
	parts := splitTop(body)
	if len(parts) != 3 {
		return "", "", "", false
	}
	return parts[0], parts[1], parts[2], true
}

// splitTop splits a sequence of s-expressions at top level.
func splitTop(s string) []string {
	var out []string
	d, start := 0, -1
	inBar := false
	for k := 0; k < len(s); k++ {
		c := s[k]
		if inBar {
			if c == '|' {
				inBar = false
			}
			continue
		}
		switch c {
		case '|':
			inBar = true
			if start < 0 {
				start = k
			}
		case '(':
			if start < 0 {
				start = k
			}
			d++
		case ')':
			d--
		case ' ', '\n', '\t':
			if d == 0 && start >= 0 {
				out = append(out, s[start:k])
				start = -1
			}
		default:
			if start < 0 {
				start = k
			}
		}
	}
	if start >= 0 {
		out = append(out, s[start:])
	}
	return out
}
func sto(a, i, v string) string { return "(store " + a + " " + i + " " + v + ")" }
func arr(i, e string) string    { return "(Array " + i + " " + e + ")" }

// ---------------------------------------------------------------------------
// Solver portfolio

var queryCounter int64

type SolverResult struct {
	Status  string // "unsat", "sat", "unknown", "timeout", "error"
	Solver  string
	Seconds float64
	Output  string
	All     map[string]string
}

type solverDef struct {
	name string
	args func(file string, tmo time.Duration) []string
	weak bool // runs with part of a theory switched off: its `unsat` is valid, its `sat` is not believed
	// prep, when set, rewrites the query before this configuration sees it. It may only DROP assumptions
	// (`unsat` of a subset of the assertions is `unsat` of all of them), so such a configuration is weak.
	prep func(query string) string
}

// dropAssumptions removes the one-line assertions for which drop says so (removing a conjunct of the negated goal
// is as sound as removing an assumption: the remaining set is a subset).
func dropAssumptions(query string, drop func(line string) bool) string {
	lines := strings.Split(query, "\n")
	out := lines[:0:0]
	for _, l := range lines {
		if strings.HasPrefix(l, "(assert ") {
			if drop(l) {
				continue
			}
		}
		out = append(out, l)
	}
	return strings.Join(out, "\n")
}

// Recursive data-structure invariants (a tree's treeOK, a list's chain) are nested quantifiers that unfold without
// end; a caller that only hands the structure on to a callee does not need them to prove facts about its own
// locals. These two configurations try the obligation without them.
func prepFlat(q string) string {
	return dropAssumptions(q, func(l string) bool { return strings.Count(l, "(forall") >= 2 })
}
func prepNoGhostQ(q string) string {
	return dropAssumptions(q, func(l string) bool { return strings.Contains(l, "(forall") && strings.Contains(l, "$ghost") })
}

func z3cfg(bin string, opts ...string) func(string, time.Duration) []string {
	return func(f string, t time.Duration) []string {
		a := []string{bin, fmt.Sprintf("-T:%d", int(t.Seconds())+1), fmt.Sprintf("-t:%d", t.Milliseconds())}
		a = append(a, opts...)
		return append(a, f)
	}
}

// solvers[0] is tried alone first; then all configurations are raced. The extra configurations are not
// decoration: measured on slice.Chunks, the same query is decided in 0.1 s by one configuration and times out
// in the others, and which one wins changes from query to query.
var solvers = []solverDef{
	{name: "z3-new", args: z3cfg("z3-new")},
	{name: "z3", args: z3cfg("z3")},
	{name: "cvc5", args: func(f string, t time.Duration) []string {
		return []string{"cvc5", fmt.Sprintf("--tlimit=%d", t.Milliseconds()), f}
	}},
	{name: "z3-new/arith2", args: z3cfg("z3-new", "smt.arith.solver=2")},
	{name: "z3-new/norelevancy", args: z3cfg("z3-new", "smt.relevancy=0")},
	{name: "z3/norelevancy", args: z3cfg("z3", "smt.relevancy=0")},
	{name: "z3/noautoconfig", args: z3cfg("z3", "auto_config=false")},
	{name: "z3-new/seed3", args: z3cfg("z3-new", "smt.random_seed=3")},
	{name: "z3-new/casesplit3", args: z3cfg("z3-new", "auto_config=false", "smt.case_split=3")},
	{name: "z3/casesplit3", args: z3cfg("z3", "auto_config=false", "smt.case_split=3")},
	// recursive data-structure invariants (stree) unfold one level per instantiation generation, in two directions:
	// with the default threshold the solver unfolds ten levels eagerly (2^10 instances) before looking elsewhere
	{name: "z3-new/eager4", args: z3cfg("z3-new", "smt.qi.eager_threshold=4")},
	{name: "z3/eager5", args: z3cfg("z3", "smt.qi.eager_threshold=5")},
	// array extensionality off: equalities between set-valued ghost fields (frames) otherwise drown the search in
	// extensionality axioms. Dropping axioms keeps `unsat` valid; a `sat` from these is recorded as unknown.
	{name: "z3-new/noext", args: z3cfg("z3-new", "smt.array.extensional=false"), weak: true},
	{name: "z3/noext", args: z3cfg("z3", "smt.array.extensional=false"), weak: true},
	{name: "z3-new/flat", args: z3cfg("z3-new"), weak: true, prep: prepFlat},
	{name: "z3-new/noghostq", args: z3cfg("z3-new"), weak: true, prep: prepNoGhostQ},
}

func runOne(ctx context.Context, sd solverDef, file string, tmo time.Duration) (status, output string, secs float64) {
	if sd.prep != nil {
		if b, err := os.ReadFile(file); err == nil {
			pf := strings.TrimSuffix(file, ".smt2") + "." + sanitize(sd.name) + ".smt2"
			if os.WriteFile(pf, []byte(sd.prep(string(b))), 0o644) == nil {
				defer os.Remove(pf)
				file = pf
			}
		}
	}
	a := sd.args(file, tmo)
	cctx, cancel := context.WithTimeout(ctx, tmo+2*time.Second)
	defer cancel()
	cmd := exec.CommandContext(cctx, a[0], a[1:]...)
	var out bytes.Buffer
	cmd.Stdout = &out
	cmd.Stderr = &out
	t0 := time.Now()
	cmd.Run()
	secs = time.Since(t0).Seconds()
	output = out.String()
	first := ""
	for _, ln := range strings.Split(output, "\n") {
		ln = strings.TrimSpace(ln)
		if ln == "" || strings.HasPrefix(ln, "WARNING") || strings.HasPrefix(ln, "(warning") {
			continue
		}
		first = ln
		break
	}
	switch first {
	case "unsat", "sat", "unknown":
		status = first
		if status == "sat" && sd.weak {
			status = "unknown"
		}
	case "timeout":
		status = "timeout"
	default:
		if cctx.Err() != nil || strings.Contains(output, "timeout") || strings.Contains(output, "interrupted") {
			status = "timeout"
		} else {
			status = "error"
		}
	}
	return
}

// solveStage1 runs the first configuration alone, with a short timeout.
func solveStage1(dir, name, query string, tmo time.Duration) (SolverResult, string) {
	file := filepath.Join(dir, fmt.Sprintf("q%06d-%s.smt2", atomic.AddInt64(&queryCounter, 1), sanitize(name)))
	os.WriteFile(file, []byte(query), 0o644)
	res := SolverResult{All: map[string]string{}}
	st, out, secs := runOne(context.Background(), solvers[0], file, tmo)
	res.All[solvers[0].name] = fmt.Sprintf("%s %.2fs", st, secs)
	res.Status, res.Solver, res.Seconds, res.Output = st, solvers[0].name, secs, out
	if st == "unsat" {
		os.Remove(file)
	}
	return res, file
}

// solveStage2 races every configuration on one query (the caller runs few of these at a time, so that each
// solver process gets a core of its own: oversubscription made proofs that take 2 s of CPU time out).
func solveStage2(file string, res SolverResult, tmo time.Duration) SolverResult {
	t0 := time.Now()
	ctx, cancel := context.WithCancel(context.Background())
	defer cancel()
	type r struct {
		sd      solverDef
		st, out string
		secs    float64
	}
	ch := make(chan r, len(solvers))
	for _, sd := range solvers {
		sd := sd
		go func() {
			s, o, t := runOne(ctx, sd, file, tmo)
			ch <- r{sd, s, o, t}
		}()
	}
	final := "unknown"
	for range solvers {
		x := <-ch
		res.All[x.sd.name] = fmt.Sprintf("%s %.2fs", x.st, x.secs)
		if x.st == "unsat" || x.st == "sat" {
			res.Status, res.Solver, res.Seconds, res.Output = x.st, x.sd.name, time.Since(t0).Seconds(), x.out
			cancel()
			if x.st == "unsat" {
				os.Remove(file)
			}
			return res
		}
		if x.st == "timeout" {
			final = "timeout"
		}
		if x.st == "error" && res.Output == "" {
			res.Output = x.sd.name + ": " + x.out
		}
	}
	res.Status, res.Seconds = final, time.Since(t0).Seconds()
	return res
}

// solverHint records which configuration decided an obligation on an earlier run (solver_hints.json, committed,
// written only by GOVC_LEARN=1 runs): that configuration is tried alone before the race. A hint is an ordering of
// the portfolio, never an answer: the obligation is still decided by the solver on this run's query.
type solverHint struct {
	Solver string  `json:"solver"`
	Secs   float64 `json:"secs"`
}

var (
	hintsOnce sync.Once
	hints     map[string]solverHint
)

func loadHints() map[string]solverHint {
	hintsOnce.Do(func() {
		hints = map[string]solverHint{}
		if b, err := os.ReadFile(filepath.Join(verifDir, "solver_hints.json")); err == nil {
			json.Unmarshal(b, &hints)
		}
	})
	return hints
}

func solverByName(n string) *solverDef {
	for i := range solvers {
		if solvers[i].name == n {
			return &solvers[i]
		}
	}
	return nil
}

// loadFactor stretches the timeouts when the machine is busy with something else (several checks started at
// once): a proof that needs 9 s of CPU does not finish in 20 s of wall time on a sixth of a core.
func loadFactor() float64 {
	b, err := os.ReadFile("/proc/loadavg")
	if err != nil {
		return 1
	}
	f := strings.Fields(string(b))
	if len(f) == 0 {
		return 1
	}
	l, _ := strconv.ParseFloat(f[0], 64)
	x := l / float64(maxInt(1, runtime.NumCPU()))
	if x < 1 {
		return 1
	}
	if x > 3 {
		return 3
	}
	return x
}

// solveAll discharges a list of obligations: stage 1 (first configuration, 2 s) for all of them in parallel; then the
// configuration that decided the obligation on an earlier run, alone; then the race of all configurations, two
// obligations at a time; then, for the first two that timed out, the race once more with twice the time and
// nothing else running (a timeout under load is not a verdict).
func solveAll(dir string, obls []*Obligation, tmo time.Duration) {
	lf := loadFactor()
	tmo = time.Duration(float64(tmo) * lf)
	files := make([]string, len(obls))
	stage1 := time.Duration(float64(2*time.Second) * lf)
	if tmo < stage1 {
		stage1 = tmo
	}
	parallelDo(14, len(obls), func(i int) {
		o := obls[i]
		o.Result, files[i] = solveStage1(dir, o.Name, o.Query, stage1)
	})
	var hard []int
	for i, o := range obls {
		if o.Result.Status == "unsat" || o.Result.Status == "sat" {
			continue
		}
		if o.Vacuity {
			os.Remove(files[i])
			continue // a vacuity check only fails on a proof of inconsistency
		}
		hard = append(hard, i)
	}
	// hinted configuration alone
	hs := loadHints()
	parallelDo(7, len(hard), func(k int) {
		i := hard[k]
		h, ok := hs[obls[i].Name]
		sd := solverByName(h.Solver)
		if !ok || sd == nil {
			return
		}
		t := time.Duration((4*h.Secs+3)*lf) * time.Second
		if t > tmo {
			t = tmo
		}
		st, out, secs := runOne(context.Background(), *sd, files[i], t)
		obls[i].Result.All[sd.name+"(hint)"] = fmt.Sprintf("%s %.2fs", st, secs)
		if st == "unsat" {
			obls[i].Result.Status, obls[i].Result.Solver, obls[i].Result.Seconds, obls[i].Result.Output = st, sd.name, secs, out
			os.Remove(files[i])
		}
	})
	var rest []int
	for _, i := range hard {
		if obls[i].Result.Status != "unsat" {
			rest = append(rest, i)
		}
	}
	// once several obligations have failed the verdict is settled (the check reports a violation): the remaining
	// ones get a short race, so that a badly broken tree costs minutes, not tens of minutes
	var failed int64
	parallelDo(2, len(rest), func(k int) {
		i := rest[k]
		t := tmo
		if obls[i].Finding != nil {
			t = tmo / 4 // expected to fail (known finding): the decisive query is the one outside the region
		} else if atomic.LoadInt64(&failed) >= 4 && t > 5*time.Second {
			t = 5 * time.Second
		}
		obls[i].Result = solveStage2(files[i], obls[i].Result, t)
		if obls[i].Finding == nil && obls[i].Result.Status != "unsat" {
			atomic.AddInt64(&failed, 1)
		}
	})
	retried := 0
	for _, i := range rest {
		o := obls[i]
		if failed >= 3 {
			break
		}
		if o.Finding != nil || o.Result.Status != "timeout" || retried >= 2 {
			continue // `unknown` from every configuration is an answer (instantiation ran dry), a timeout is not
		}
		if _, err := os.Stat(files[i]); err != nil {
			continue
		}
		retried++
		o.Result = solveStage2(files[i], o.Result, 2*tmo)
	}
	if os.Getenv("GOVC_LEARN") != "" {
		learnHints(obls, hard)
	}
}

// learnHints merges the winners of this run into solver_hints.json (development aid; registered checks never set
// GOVC_LEARN).
func learnHints(obls []*Obligation, hard []int) {
	path := filepath.Join(verifDir, "solver_hints.json")
	cur := map[string]solverHint{}
	if b, err := os.ReadFile(path); err == nil {
		json.Unmarshal(b, &cur)
	}
	isHard := map[int]bool{}
	for _, i := range hard {
		isHard[i] = true
	}
	for i, o := range obls {
		if !isHard[i] {
			delete(cur, o.Name) // decided by the first configuration this time: no hint needed any more
		}
	}
	for _, i := range hard {
		o := obls[i]
		if o.Result.Status == "unsat" && o.Result.Solver != "" {
			cur[o.Name] = solverHint{Solver: o.Result.Solver, Secs: round3(o.Result.Seconds)}
		}
	}
	b, _ := json.MarshalIndent(cur, "", " ")
	os.WriteFile(path, append(b, '\n'), 0o644)
}

// solve: one query, both stages (used for the region re-checks).
func solve(dir, name, query string, tmo time.Duration, stage1Only bool) SolverResult {
	res, file := solveStage1(dir, name, query, 2*time.Second)
	if res.Status == "unsat" || res.Status == "sat" || stage1Only {
		return res
	}
	return solveStage2(file, res, tmo)
}

func sanitize(s string) string {
	var b strings.Builder
	for _, c := range s {
		switch {
		case c >= 'a' && c <= 'z', c >= 'A' && c <= 'Z', c >= '0' && c <= '9', c == '.', c == '-', c == '_', c == '#':
			b.WriteRune(c)
		default:
			b.WriteByte('_')
		}
	}
	r := b.String()
	if len(r) > 150 {
		r = r[:150]
	}
	return r
}

// parallel map over jobs with n workers
func parallelDo(n int, jobs int, f func(i int)) {
	var wg sync.WaitGroup
	ch := make(chan int)
	for w := 0; w < n; w++ {
		wg.Add(1)
		go func() {
			defer wg.Done()
			for i := range ch {
				f(i)
			}
		}()
	}
	for i := 0; i < jobs; i++ {
		ch <- i
	}
	close(ch)
	wg.Wait()
}
