package main

// Go maps: a map value is a reference (0 = nil map) into a domain store and a value store; len(m) is the
// cardinality of the domain, an uninterpreted function cardOf whose defining lemma instances are emitted at
// every map write, delete, make and clear (ground facts: part of the trusted base).

import (
	"fmt"
	"go/ast"
	"go/token"
	"go/types"
)

type mapComps struct {
	dom, val   string // component keys
	ks, vs     string // sorts
	domS, valS string // sorts of the inner arrays
	kt, vt     types.Type
}

func (fv *FV) mapInfo(mt *types.Map) mapComps {
	ks, vs := fv.sortOf(mt.Key()), fv.sortOf(mt.Elem())
	mc := mapComps{ks: ks, vs: vs, kt: mt.Key(), vt: mt.Elem()}
	mc.dom = "MD:" + ks
	mc.val = "MV:" + ks + ":" + vs
	mc.domS = arr(ks, sBool)
	mc.valS = arr(ks, vs)
	if fv.compSort[mc.dom] == "" {
		fv.compSort[mc.dom] = arr(sInt, mc.domS)
		fv.compKind[mc.dom] = "mapdom"
	}
	if fv.compSort[mc.val] == "" {
		fv.compSort[mc.val] = arr(sInt, mc.valS)
	}
	return mc
}

func (fv *FV) emptyDom(ks string) string {
	return fmt.Sprintf("((as const %s) false)", arr(ks, sBool))
}

func (fv *FV) cardOf(ks, d string) string {
	name := "cardOf$" + cleanName(ks)
	if !fv.declared[name] {
		fv.declared[name] = true
		fv.decls = append(fv.decls, fmt.Sprintf("(declare-fun %s (%s) Int)", name, arr(ks, sBool)))
		fv.axioms = append(fv.axioms, eq(app(name, fv.emptyDom(ks)), "0"))
		fv.assumptions["map sizes: len(m) is cardOf(domain), an uninterpreted function; ground instances of the finite-set cardinality lemmas are emitted at map writes, deletes, make, clear and len (insert adds one unless present, delete removes one if present, the empty domain has size 0, size 0 means empty, a member means size >= 1, sizes are non-negative)"] = true
	}
	return app(name, d)
}

// cardFacts: the facts every len(m) term comes with.
func (fv *FV) cardFacts(st *State, ks, d string) {
	c := fv.cardOf(ks, d)
	key := "cardfacts\x00" + d
	if fv.declared[key] {
		return
	}
	fv.declared[key] = true
	fv.axioms = append(fv.axioms, app(">=", c, "0"), implies(eq(c, "0"), eq(d, fv.emptyDom(ks))))
	if !containsQ(d) {
		fv.axioms = append(fv.axioms, fmt.Sprintf("(forall ((x %s)) (! (=> (select %s x) (>= %s 1)) :pattern ((select %s x))))", ks, d, c, d))
	}
}

func containsQ(s string) bool {
	for i := 0; i < len(s); i++ {
		if s[i] == '?' {
			return true
		}
	}
	return false
}

func (fv *FV) mapKeys(mt *types.Map) []string {
	mc := fv.mapInfo(mt)
	return []string{mc.dom, mc.val}
}

func (fv *FV) mapTargets(m Term) []modTarget {
	mt, ok := underMap(m.T)
	if !ok {
		fv.sfail("not a map: %s", m.S)
	}
	mc := fv.mapInfo(mt)
	return []modTarget{{key: mc.dom, ref: m.S}, {key: mc.val, ref: m.S}}
}

func (fv *FV) mapMake(st *State, t types.Type) Term {
	mt, _ := underMap(t)
	mc := fv.mapInfo(mt)
	r := fv.newRef(st, "map")
	fv.heapSetNoFrame(st, mc.dom, sto(fv.heapGet(st, mc.dom), r, fv.emptyDom(mc.ks)))
	fv.cardOf(mc.ks, fv.emptyDom(mc.ks))
	return Term{S: r, Sort: sInt, T: t}
}

func (fv *FV) mapDomOf(st *State, m Term, mc mapComps) string {
	return sel(fv.heapGet(st, mc.dom), m.S)
}

func (fv *FV) mapHas(st *State, m, k Term, mt *types.Map) string {
	mc := fv.mapInfo(mt)
	kk, _ := fv.coerce(k, Term{Sort: mc.ks, T: mc.kt})
	return sel(fv.mapDomOf(st, m, mc), kk.S)
}

func (fv *FV) mapRead(st *State, m, k Term, mt *types.Map) Term {
	mc := fv.mapInfo(mt)
	kk, _ := fv.coerce(k, Term{Sort: mc.ks, T: mc.kt})
	has := sel(fv.mapDomOf(st, m, mc), kk.S)
	v := sel(sel(fv.heapGet(st, mc.val), m.S), kk.S)
	return Term{S: ite(has, v, fv.zero(mc.vt).S), Sort: mc.vs, T: mc.vt}
}

func (fv *FV) mapLen(st *State, m Term) Term {
	mt, _ := underMap(m.T)
	mc := fv.mapInfo(mt)
	d := fv.mapDomOf(st, m, mc)
	fv.cardFacts(st, mc.ks, d)
	return Term{S: fv.cardOf(mc.ks, d), Sort: sInt, T: types.Typ[types.Int]}
}

func (fv *FV) mapWrite(st *State, m, k, v Term, mt *types.Map, pos token.Pos) {
	mc := fv.mapInfo(mt)
	fv.safety(st, "mapnil["+fv.posText(pos)+"]", not(eq(m.S, "0")), "assignment to an entry of a nil map", pos)
	kk, _ := fv.coerce(k, Term{Sort: mc.ks, T: mc.kt})
	vv, _ := fv.coerce(v, Term{Sort: mc.vs, T: mc.vt})
	d := fv.mapDomOf(st, m, mc)
	nd := sto(d, kk.S, "true")
	fv.define(st, eq(fv.cardOf(mc.ks, nd), app("+", fv.cardOf(mc.ks, d), ite(sel(d, kk.S), "0", "1"))))
	fv.heapSet(st, mc.dom, sto(fv.heapGet(st, mc.dom), m.S, nd))
	vals := fv.heapGet(st, mc.val)
	fv.heapSet(st, mc.val, sto(vals, m.S, sto(sel(vals, m.S), kk.S, vv.S)))
}

func (fv *FV) mapDelete(st *State, m, k Term, pos token.Pos) {
	mt, _ := underMap(m.T)
	mc := fv.mapInfo(mt)
	kk, _ := fv.coerce(k, Term{Sort: mc.ks, T: mc.kt})
	d := fv.mapDomOf(st, m, mc)
	nd := sto(d, kk.S, "false")
	fv.define(st, eq(fv.cardOf(mc.ks, nd), app("-", fv.cardOf(mc.ks, d), ite(sel(d, kk.S), "1", "0"))))
	// deleting from a nil map is a no-op: the nil map's domain is empty and stays empty
	fv.heapSet(st, mc.dom, ite(eq(m.S, "0"), fv.heapGet(st, mc.dom), sto(fv.heapGet(st, mc.dom), m.S, nd)))
}

func (fv *FV) mapClear(st *State, m Term, pos token.Pos) {
	mt, _ := underMap(m.T)
	mc := fv.mapInfo(mt)
	fv.heapSet(st, mc.dom, ite(eq(m.S, "0"), fv.heapGet(st, mc.dom), sto(fv.heapGet(st, mc.dom), m.S, fv.emptyDom(mc.ks))))
}

func (fv *FV) posText(pos token.Pos) string {
	if !pos.IsValid() {
		return "?"
	}
	p := fv.w.fset.Position(pos)
	return fmt.Sprintf("line %d", p.Line-fv.w.fset.Position(fv.fi.Decl.Pos()).Line)
}

// execRangeMap: `for k, v := range m`. Ghost set `seen`; each iteration takes some key of the current domain that
// has not been seen; the loop ends when every key of the current domain has been seen. Deleting during the
// iteration is faithful; the order is arbitrary. Termination is not proved.
func (fv *FV) execRangeMap(st *State, x *ast.RangeStmt, label string, ord int, ls *LoopSpec, keyObj, valObj types.Object, mt *types.Map) *State {
	mc := fv.mapInfo(mt)
	scopePos := x.Body.Lbrace + 1
	m := fv.evalExpr(st, x.X)
	m = fv.nameTerm(st, "rngmap", m)
	seenName := fmt.Sprintf("seen%d", ord)
	itName := fmt.Sprintf("it%d", ord)
	seenT := &specType{sort: arr(mc.ks, sBool), elem: types.Typ[types.Bool], key: mc.kt}
	st.ghost[seenName] = Term{S: fv.emptyDom(mc.ks), Sort: arr(mc.ks, sBool), T: seenT}
	st.ghost[itName] = Term{S: "0", Sort: sInt, T: types.Typ[types.Int]}
	if keyObj != nil {
		st.vars[keyObj] = fv.zero(keyObj.Type())
	}
	if valObj != nil {
		st.vars[valObj] = fv.zero(valObj.Type())
	}
	fv.checkInvariants(st, ls, ord, "entry", x.Pos(), scopePos)
	eff := fv.effects(st, []ast.Node{x.Body}, x.Body)
	head := st.clone()
	for o := range eff.locals {
		if cur, live := head.vars[o]; live && o != keyObj && o != valObj {
			nv := Term{S: fv.fresh(o.Name(), cur.Sort), Sort: cur.Sort, T: cur.T}
			head.vars[o] = nv
			fv.assumeWF(head, nv)
		}
	}
	if eff.allocs {
		fv.havocAlloc(head)
	}
	fv.applyEffects(st, head, eff)
	for name := range fv.ghostAssignedIn(ord) {
		if cur, ok := head.ghost[name]; ok {
			head.ghost[name] = Term{S: fv.fresh(name, cur.Sort), Sort: cur.Sort, T: cur.T}
		}
	}
	seen := Term{S: fv.fresh(seenName, arr(mc.ks, sBool)), Sort: arr(mc.ks, sBool), T: seenT}
	head.ghost[seenName] = seen
	it := Term{S: fv.fresh(itName, sInt), Sort: sInt, T: types.Typ[types.Int]}
	head.ghost[itName] = it
	fv.assume(head, app("<=", "0", it.S))
	fv.assumeInvariants(head, ls, scopePos)
	if ls != nil && len(ls.Invariants) > 0 {
		fv.obligeSat(head, fmt.Sprintf("vacuity.loop%d", ord), "the loop invariants are satisfiable")
	}
	dom := fv.mapDomOf(head, m, mc)
	// some unseen key of the current domain
	k := Term{S: fv.fresh("key", mc.ks), Sort: mc.ks, T: mc.kt}
	more := and(sel(dom, k.S), not(sel(seen.S, k.S)))
	done := fmt.Sprintf("(forall ((x %s)) (! (=> (select %s x) (select %s x)) :pattern ((select %s x))))", mc.ks, dom, seen.S, dom)
	body := fv.fork(head, more)
	exit := fv.fork(head, done)
	if keyObj != nil {
		kk := k
		kk.T = keyObj.Type()
		body.vars[keyObj] = kk
	}
	if valObj != nil {
		v := sel(sel(fv.heapGet(body, mc.val), m.S), k.S)
		body.vars[valObj] = fv.nameTerm(body, valObj.Name(), Term{S: v, Sort: mc.vs, T: valObj.Type()})
	}
	body.ghost[seenName] = Term{S: sto(seen.S, k.S, "true"), Sort: seen.Sort, T: seenT}
	// the new key was not seen before: the seen set grows by exactly one
	fv.define(body, eq(fv.cardOf(mc.ks, sto(seen.S, k.S, "true")), app("+", fv.cardOf(mc.ks, seen.S), "1")))
	lc := &loopCtx{label: label}
	fv.ctx = append(fv.ctx, lc)
	fv.ghostAt(body, fmt.Sprintf("loop %d head", ord), x.Body.Lbrace+1)
	end := fv.execBlock(body, x.Body.List)
	fv.ctx = fv.ctx[:len(fv.ctx)-1]
	for k, end := range append([]*State{end}, lc.continues...) {
		if end == nil {
			continue
		}
		phase := "preserve"
		if k > 0 {
			phase = fmt.Sprintf("preserve@continue%d", k)
		}
		end.ghost[itName] = Term{S: app("+", it.S, "1"), Sort: sInt, T: types.Typ[types.Int]}
		fv.ghostAt(end, fmt.Sprintf("loop %d end", ord), x.Body.Lbrace+1)
		fv.checkInvariants(end, ls, ord, phase, x.Pos(), scopePos)
	}
	after := fv.merge(append([]*State{exit}, lc.breaks...)...)
	fv.ghostAt(after, fmt.Sprintf("loop %d exit", ord), x.Pos())
	return after
}
