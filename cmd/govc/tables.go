package main

// Package-level tables: a `var x = [...]T{...}` / `[N]T{...}` / `[]T{...}` composite literal whose elements are
// constants, struct literals of constants, or nested such literals is read from the source on every run and
// indexed symbolically (an ite-chain over its entries). The variable must never be assigned (checked).

import (
	"fmt"
	"go/ast"
	"go/constant"
	"go/token"
	"go/types"
	"sort"
	"strings"
)

type tableNode struct {
	typ     types.Type
	scalar  *Term              // leaf
	elems   map[int64]*tableNode // array / slice elements by index
	length  int64
	fields  []*tableNode // struct literal
	isArray bool
}

// tableOf returns the table of a package-level variable, or nil if it is not one.
func (fv *FV) tableOf(v *types.Var) *tableNode {
	if fv.tables == nil {
		fv.tables = map[*types.Var]*tableNode{}
	}
	if t, ok := fv.tables[v]; ok {
		return t
	}
	fv.tables[v] = nil
	pkg := fv.w.pkgs[pkgPathOf(v)]
	if pkg == nil {
		return nil
	}
	var init ast.Expr
	assigned := false
	for _, f := range pkg.Syntax {
		ast.Inspect(f, func(n ast.Node) bool {
			switch x := n.(type) {
			case *ast.ValueSpec:
				for i, name := range x.Names {
					if pkg.TypesInfo.Defs[name] == v && i < len(x.Values) {
						init = x.Values[i]
					}
				}
			case *ast.AssignStmt:
				for _, l := range x.Lhs {
					if rootIdentObj(pkg.TypesInfo, l) == v {
						assigned = true
					}
				}
			case *ast.IncDecStmt:
				if rootIdentObj(pkg.TypesInfo, x.X) == v {
					assigned = true
				}
			case *ast.UnaryExpr:
				if x.Op == token.AND && rootIdentObj(pkg.TypesInfo, x.X) == v {
					assigned = true // address taken: could be written through the pointer
				}
			}
			return true
		})
	}
	cl, ok := init.(*ast.CompositeLit)
	if !ok || assigned {
		return nil
	}
	t := fv.tableLit(pkg.TypesInfo, cl, v.Type())
	fv.tables[v] = t
	if t != nil {
		fv.assumptions["package-level table "+v.Name()+" is read from its composite literal in the source; it is never assigned and its address is never taken (checked syntactically)"] = true
	}
	return t
}

func rootIdentObj(info *types.Info, e ast.Expr) types.Object {
	for {
		switch x := ast.Unparen(e).(type) {
		case *ast.Ident:
			return info.ObjectOf(x)
		case *ast.IndexExpr:
			e = x.X
		case *ast.SelectorExpr:
			e = x.X
		case *ast.StarExpr:
			e = x.X
		default:
			return nil
		}
	}
}

func (fv *FV) tableLit(info *types.Info, cl *ast.CompositeLit, t types.Type) *tableNode {
	switch ut := t.Underlying().(type) {
	case *types.Array, *types.Slice:
		var et types.Type
		n := &tableNode{typ: t, elems: map[int64]*tableNode{}, isArray: true}
		if a, ok := ut.(*types.Array); ok {
			et = a.Elem()
			n.length = a.Len()
		} else {
			et = ut.(*types.Slice).Elem()
		}
		idx := int64(0)
		maxIdx := int64(-1)
		for _, el := range cl.Elts {
			val := el
			if kv, ok := el.(*ast.KeyValueExpr); ok {
				tv, ok := info.Types[kv.Key]
				if !ok || tv.Value == nil {
					return nil
				}
				k, ok := constant.Int64Val(constant.ToInt(tv.Value))
				if !ok {
					return nil
				}
				idx = k
				val = kv.Value
			}
			child := fv.tableElem(info, val, et)
			if child == nil {
				return nil
			}
			n.elems[idx] = child
			if idx > maxIdx {
				maxIdx = idx
			}
			idx++
		}
		if _, isSlice := ut.(*types.Slice); isSlice {
			n.length = maxIdx + 1
		}
		return n
	case *types.Struct:
		n := &tableNode{typ: t}
		if len(cl.Elts) != ut.NumFields() {
			return nil
		}
		for i, el := range cl.Elts {
			if _, ok := el.(*ast.KeyValueExpr); ok {
				return nil
			}
			child := fv.tableElem(info, el, ut.Field(i).Type())
			if child == nil {
				return nil
			}
			n.fields = append(n.fields, child)
		}
		return n
	}
	return nil
}

func (fv *FV) tableElem(info *types.Info, e ast.Expr, t types.Type) *tableNode {
	if cl, ok := e.(*ast.CompositeLit); ok {
		return fv.tableLit(info, cl, t)
	}
	tv, ok := info.Types[e]
	if !ok || tv.Value == nil {
		return nil
	}
	term := fv.constTerm(nil, tv.Value, t)
	term.T = t
	term.Lit = false
	return &tableNode{typ: t, scalar: &term}
}

// tableValue renders a table node as a term (scalars and struct values; arrays have no term of their own).
func (fv *FV) tableValue(n *tableNode) (Term, bool) {
	if n.scalar != nil {
		return *n.scalar, true
	}
	if n.fields != nil {
		s := fv.sortOf(n.typ)
		var fs []string
		for _, f := range n.fields {
			v, ok := fv.tableValue(f)
			if !ok {
				return Term{}, false
			}
			fs = append(fs, v.S)
		}
		if len(fs) == 0 {
			fs = []string{"0"}
		}
		return Term{S: "(mk-" + s + " " + strings.Join(fs, " ") + ")", Sort: s, T: n.typ}, true
	}
	return Term{}, false
}

// tableIndex evaluates expr (a chain of index expressions rooted at a table variable); ok=false if expr is not one.
// The result is either a term (fully indexed down to a scalar/struct) or a set of candidate sub-tables guarded by
// conditions (partially indexed).
type tableSel struct {
	cond string
	node *tableNode
}

func (fv *FV) evalTable(st *State, e ast.Expr) (sels []tableSel, ok bool) {
	switch x := ast.Unparen(e).(type) {
	case *ast.Ident:
		v, isVar := fv.info.ObjectOf(x).(*types.Var)
		if !isVar || v.IsField() || v.Pkg() == nil || v.Parent() != v.Pkg().Scope() {
			return nil, false
		}
		t := fv.tableOf(v)
		if t == nil {
			return nil, false
		}
		return []tableSel{{"true", t}}, true
	case *ast.SelectorExpr:
		if id, isID := x.X.(*ast.Ident); isID {
			if _, isPkg := fv.info.ObjectOf(id).(*types.PkgName); isPkg {
				v, isVar := fv.info.ObjectOf(x.Sel).(*types.Var)
				if !isVar {
					return nil, false
				}
				t := fv.tableOf(v)
				if t == nil {
					return nil, false
				}
				return []tableSel{{"true", t}}, true
			}
		}
	case *ast.IndexExpr:
		base, ok := fv.evalTable(st, x.X)
		if !ok {
			return nil, false
		}
		idx := fv.evalExpr(st, x.Index)
		// bounds: under each candidate, 0 <= idx < length
		var inb []string
		var out []tableSel
		for _, b := range base {
			if !b.node.isArray {
				return nil, false
			}
			inb = append(inb, implies(b.cond, fv.idxInRange(idx, b.node.length)))
			var keys []int64
			for k := range b.node.elems {
				keys = append(keys, k)
			}
			sort.Slice(keys, func(i, j int) bool { return keys[i] < keys[j] })
			var rest []string
			for _, k := range keys {
				c := fv.idxEq(idx, k)
				out = append(out, tableSel{and(b.cond, c), b.node.elems[k]})
				rest = append(rest, not(c))
			}
			// every other in-range index holds the zero value
			var zt types.Type
			switch ut := b.node.typ.Underlying().(type) {
			case *types.Array:
				zt = ut.Elem()
			case *types.Slice:
				zt = ut.Elem()
			}
			if int64(len(keys)) < b.node.length {
				z := fv.zeroTable(zt)
				if z == nil {
					return nil, false
				}
				out = append(out, tableSel{and(append([]string{b.cond}, rest...)...), z})
			}
		}
		fv.safety(st, "idx["+fv.src(x)+"]", and(inb...), "index in range of the table: "+fv.src(x), x.Pos())
		return out, true
	}
	return nil, false
}

func (fv *FV) zeroTable(t types.Type) *tableNode {
	switch ut := t.Underlying().(type) {
	case *types.Slice:
		return &tableNode{typ: t, elems: map[int64]*tableNode{}, isArray: true, length: 0}
	case *types.Array:
		_ = ut
		return nil
	case *types.Struct:
		n := &tableNode{typ: t}
		for i := 0; i < ut.NumFields(); i++ {
			c := fv.zeroTable(ut.Field(i).Type())
			if c == nil {
				return nil
			}
			n.fields = append(n.fields, c)
		}
		return n
	}
	z := fv.zero(t)
	return &tableNode{typ: t, scalar: &z}
}

func (fv *FV) idxInRange(idx Term, n int64) string {
	if isBV(idx.Sort) {
		w := bvWidth(idx.Sort)
		if w < 63 && n >= int64(1)<<uint(w) {
			return "true"
		}
		return app("bvult", idx.S, fmt.Sprintf("(_ bv%d %d)", n, w))
	}
	return and(app("<=", "0", idx.S), app("<", idx.S, fmt.Sprint(n)))
}

func (fv *FV) idxEq(idx Term, k int64) string {
	if isBV(idx.Sort) {
		return eq(idx.S, fmt.Sprintf("(_ bv%d %d)", k, bvWidth(idx.Sort)))
	}
	return eq(idx.S, fmt.Sprint(k))
}

// tableTerm collapses fully indexed candidates into one term.
func (fv *FV) tableTerm(sels []tableSel) (Term, bool) {
	var res Term
	first := true
	for i := len(sels) - 1; i >= 0; i-- {
		v, ok := fv.tableValue(sels[i].node)
		if !ok {
			return Term{}, false
		}
		if first {
			res = v
			first = false
			continue
		}
		res.S = ite(sels[i].cond, v.S, res.S)
	}
	if first {
		return Term{}, false
	}
	return res, true
}
