package main

// Ghost statements, switch, defer, closures, report/trace roles.

import (
	"bytes"
	"fmt"
	"go/ast"
	"go/printer"
	"go/token"
	"go/types"
	"strings"
)

type closure struct {
	lit     *ast.FuncLit
	obj     types.Object
	term    Term
	inlined bool // a local helper closure whose calls execute its body in place
}

// inlinable: a closure literal whose body has no return statement except possibly one as its last statement.
func inlinable(lit *ast.FuncLit) bool {
	ok := true
	n := len(lit.Body.List)
	for i, s := range lit.Body.List {
		ast.Inspect(s, func(c ast.Node) bool {
			switch c.(type) {
			case *ast.FuncLit:
				return false
			case *ast.ReturnStmt:
				if !(i == n-1 && c == ast.Node(s)) {
					ok = false
				}
			case *ast.DeferStmt, *ast.GoStmt:
				ok = false
			}
			return true
		})
	}
	return ok
}

// ---------------------------------------------------------------------------
// ghost statements

func (fv *FV) ghostAt(st *State, anchor string, pos token.Pos) {
	if fv.fc == nil || st == nil {
		return
	}
	for _, g := range fv.fc.Ghosts {
		if g.Anchor == anchor {
			fv.execGhost(st, g, pos)
		}
	}
}

func (fv *FV) ghostBefore(st *State, s ast.Stmt) {
	if fv.fc == nil || st == nil || len(fv.fc.Ghosts) == 0 {
		return
	}
	var text string
	if ifs, ok := s.(*ast.IfStmt); ok {
		// an if statement is anchored by `before "if <condition>"`
		text = "if " + fv.src(ifs.Cond)
	}
	for _, g := range fv.fc.Ghosts {
		if !strings.HasPrefix(g.Anchor, "before ") {
			continue
		}
		if text == "" {
			text = fv.srcFull(s)
		}
		want := strings.Trim(strings.TrimSpace(g.Anchor[7:]), "\"")
		if normSpace(want) == normSpace(text) {
			fv.execGhost(st, g, s.Pos())
		}
	}
}

func (fv *FV) ghostAfter(st *State, s ast.Stmt) {
	if fv.fc == nil || st == nil || len(fv.fc.Ghosts) == 0 {
		return
	}
	var text string
	for _, g := range fv.fc.Ghosts {
		if !strings.HasPrefix(g.Anchor, "after ") {
			continue
		}
		if text == "" {
			text = fv.srcFull(s)
		}
		want := strings.Trim(strings.TrimSpace(g.Anchor[6:]), "\"")
		if normSpace(want) == normSpace(text) {
			fv.execGhost(st, g, s.End())
		}
	}
}

func normSpace(s string) string { return strings.Join(strings.Fields(s), " ") }

func (fv *FV) srcFull(n ast.Node) string {
	var b bytes.Buffer
	printer.Fprint(&b, fv.w.fset, n)
	out := strings.Join(strings.Fields(b.String()), " ")
	if _, isDecl := n.(*ast.DeclStmt); isDecl {
		// the printer appends the line comment of a declaration: anchors quote the declaration only
		if k := strings.Index(out, " //"); k >= 0 {
			out = strings.TrimSpace(out[:k])
		}
	}
	return out
}

func (fv *FV) ghostAssignedIn(ord int) map[string]bool {
	out := map[string]bool{}
	if fv.fc == nil {
		return out
	}
	for _, g := range fv.fc.Ghosts {
		if g.Kind != "assign" {
			continue
		}
		// a ghost assignment is inside loop `ord` if it is anchored at that loop (or at a loop nested in it), or at a
		// statement inside it
		inside := false
		if g.Anchor == "entry" || g.Anchor == "exit" {
			continue
		}
		var k int
		if n, _ := fmt.Sscanf(g.Anchor, "loop %d", &k); n == 1 {
			if k == ord {
				inside = true
			}
			for _, outer := range fv.loopNest[k] {
				if outer == ord {
					inside = true
				}
			}
		} else if m := fv.ghostLoops[g]; m != nil {
			inside = m[ord]
		} else {
			inside = true
		}
		if !inside {
			continue
		}
		if id, ok := g.LHS.(*SIdent); ok {
			out[id.Name] = true
		}
		if ix, ok := g.LHS.(*SIndex); ok {
			if id, ok := ix.X.(*SIdent); ok {
				out[id.Name] = true
			}
		}
	}
	return out
}

func (fv *FV) execGhost(st *State, g *GhostStmt, pos token.Pos) {
	if !fv.tagOK(g.Tags) {
		return
	}
	env := fv.localEnv(st, pos)
	if !pos.IsValid() {
		env.scopePos = fv.fi.Decl.Body.Lbrace + 1
	}
	if fv.curResults != nil {
		env.results = fv.curResults
	}
	switch g.Kind {
	case "assert":
		fv.pendingFacts = nil
		parts := fv.splitConj(env, g.RHS)
		for _, f := range fv.pendingFacts {
			fv.assume(st, f)
		}
		fv.pendingFacts = nil
		for j, phi := range parts {
			name := "ghost.assert[" + g.Src + "]"
			if len(parts) > 1 {
				name = fmt.Sprintf("ghost.assert[%s]/%d", g.Src, j+1)
			}
			fv.oblige(st, name, phi, "ghost assertion "+g.Src, g.Tags, pos)
		}
		fv.assume(st, fv.specBool(env, g.RHS))
	case "apply":
		fv.applyLemma(st, env, g, pos)
	case "assume":
		fv.assume(st, fv.specBool(env, g.RHS))
		fv.assumptions["ghost assume in "+fv.fi.FullName()+": "+g.Src] = true
	case "assign":
		v := fv.spec(env, g.RHS)
		switch l := g.LHS.(type) {
		case *SIdent:
			if gv := fv.lookupGhostVar(fv.pc, l.Name); gv != nil {
				cur := fv.ghostVarTerm(env, gv)
				vv, _ := fv.coerce(v, cur)
				fv.heapSet(st, "G:"+gv.Name, vv.S)
				return
			}
			if cur, ok := st.ghost[l.Name]; ok {
				v, _ = fv.coerce(v, cur)
				v.T = cur.T
			}
			v.Lit = false
			if v.Sort == sBool && strings.Contains(v.S, "(forall ") {
				// a ghost flag that abbreviates a quantified formula is named once; every use is then the flag, not
				// another copy of the quantifier
				v = fv.nameTerm(st, l.Name, v)
			}
			st.ghost[l.Name] = v
		case *SIndex:
			id, ok := l.X.(*SIdent)
			if !ok {
				fv.sfail("ghost assignment target %s", specString(g.LHS))
			}
			idx := fv.spec(env, l.I)
			if gv := fv.lookupGhostVar(fv.pc, id.Name); gv != nil {
				cur := fv.ghostVarTerm(env, gv)
				is, es := arraySorts(cur.Sort)
				idx, _ = fv.coerce(idx, Term{Sort: is})
				v, _ = fv.coerce(v, Term{Sort: es})
				fv.heapSet(st, "G:"+gv.Name, sto(cur.S, idx.S, v.S))
				return
			}
			cur, ok := st.ghost[id.Name]
			if !ok {
				fv.sfail("unknown ghost map %s", id.Name)
			}
			is, es := arraySorts(cur.Sort)
			idx, _ = fv.coerce(idx, Term{Sort: is})
			v, _ = fv.coerce(v, Term{Sort: es})
			cur.S = sto(cur.S, idx.S, v.S)
			st.ghost[id.Name] = cur
		case *SField:
			p := fv.spec(env, l.X)
			if isUserByRef(p.T) {
				p.T = types.NewPointer(p.T)
			}
			pt, ok := p.T.Underlying().(*types.Pointer)
			if !ok {
				fv.sfail("ghost field assignment through non-pointer")
			}
			named, _ := structOf(pt.Elem())
			gt := fv.ghostField(named, l.Name)
			if gt == "" {
				fv.sfail("ghost assignment to non-ghost field %s", l.Name)
			}
			t := fv.ghostFieldTerm(st, named, l.Name, gt, p)
			key := "F:" + shortPkg(pkgPathOf(named.Obj())) + "." + named.Obj().Name() + "." + l.Name + "$ghost"
			v, _ = fv.coerce(v, t)
			fv.heapSet(st, key, sto(fv.heapGet(st, key), p.S, v.S))
		case *SCall:
			// ghost every(x.f) = lambda y *T :: e — the ghost field f of every object at once (a spine of a tree
			// loses a key): the new field array is the lambda's array
			if l.Fn == "every" && len(l.Args) == 1 {
				if fl, ok := l.Args[0].(*SField); ok {
					p := fv.spec(env, fl.X)
					if isUserByRef(p.T) {
						p.T = types.NewPointer(p.T)
					}
					if pt, ok := p.T.Underlying().(*types.Pointer); ok {
						named, _ := structOf(pt.Elem())
						if gt := fv.ghostField(named, fl.Name); gt != "" {
							fv.ghostFieldTerm(st, named, fl.Name, gt, p)
							key := "F:" + shortPkg(pkgPathOf(named.Obj())) + "." + named.Obj().Name() + "." + fl.Name + "$ghost"
							if v.Sort != fv.compSort[key] {
								fv.sfail("ghost every(%s) = …: the right-hand side has sort %s, the field array has %s", specString(fl), v.Sort, fv.compSort[key])
							}
							fv.heapSet(st, key, v.S)
							return
						}
					}
				}
			}
			fv.sfail("ghost assignment target %s", specString(g.LHS))
		default:
			fv.sfail("ghost assignment target %s", specString(g.LHS))
		}
	}
}

// ---------------------------------------------------------------------------
// switch

func (fv *FV) execSwitch(st *State, x *ast.SwitchStmt, label string) *State {
	if x.Init != nil {
		st = fv.execStmt(st, x.Init, "")
	}
	var tag *Term
	if x.Tag != nil {
		t := fv.evalExpr(st, x.Tag)
		tag = &t
	}
	lc := &loopCtx{label: "\x00switch"}
	fv.ctx = append(fv.ctx, lc)
	var outs []*State
	rest := st
	var deflt *ast.CaseClause
	for _, cs := range x.Body.List {
		cc := cs.(*ast.CaseClause)
		if cc.List == nil {
			deflt = cc
			continue
		}
		var conds []string
		for _, e := range cc.List {
			if tag != nil {
				v := fv.evalExpr(rest, e)
				conds = append(conds, fv.eqTerms(*tag, v))
			} else {
				conds = append(conds, fv.evalCond(rest, e))
			}
		}
		c := or(conds...)
		br := fv.fork(rest, c)
		rest = fv.fork(rest, not(c))
		for _, s := range cc.Body {
			if _, ok := s.(*ast.BranchStmt); ok && s.(*ast.BranchStmt).Tok == token.FALLTHROUGH {
				fv.fail(s.Pos(), "fallthrough")
			}
		}
		outs = append(outs, fv.execBlock(br, cc.Body))
	}
	if deflt != nil {
		outs = append(outs, fv.execBlock(rest, deflt.Body))
	} else {
		outs = append(outs, rest)
	}
	fv.ctx = fv.ctx[:len(fv.ctx)-1]
	outs = append(outs, lc.breaks...)
	if len(lc.continues) > 0 {
		fv.fail(x.Pos(), "internal: continue captured by switch")
	}
	return fv.merge(outs...)
}

// ---------------------------------------------------------------------------
// defer

func (fv *FV) execDefer(st *State, x *ast.DeferStmt) {
	call := x.Call
	// arguments are evaluated now; only calls without arguments that matter are in scope (Unlock, pool.Put(x))
	var argTerms []Term
	for _, a := range call.Args {
		argTerms = append(argTerms, fv.evalExpr(st, a))
	}
	fv.deferred = append(fv.deferred, func(s *State) {
		fv.evalCall(s, call)
	})
	_ = argTerms
}

// ---------------------------------------------------------------------------
// closures

func (fv *FV) closureValue(st *State, x *ast.FuncLit) Term {
	fv.nfresh++
	name := fmt.Sprintf("closure!%d", fv.nfresh)
	fv.decls = append(fv.decls, fmt.Sprintf("(declare-const %s Int)", name))
	fv.axioms = append(fv.axioms, app(">", name, "0"))
	t := Term{S: name, Sort: sInt, T: fv.typeOf(x)}
	// pure-expression comparison adapters: func(a, b T) int { return -cmp(a, b) } and the like get a defining axiom
	fv.closureAxiom(st, x, t)
	fv.lastClosure = &closure{lit: x, term: t}
	return t
}

// closureAxiom: for a literal whose body is a single return of an expression over its parameters and
// captured comparison functions, define ord(closure, a, b).
func (fv *FV) closureAxiom(st *State, x *ast.FuncLit, t Term) {
	if len(x.Body.List) != 1 {
		return
	}
	ret, ok := x.Body.List[0].(*ast.ReturnStmt)
	if !ok || len(ret.Results) != 1 {
		return
	}
	sig := fv.typeOf(x).(*types.Signature)
	if sig.Results().Len() != 1 || sig.Params().Len() == 0 {
		return
	}
	// evaluate the body with universally quantified parameters
	var pnames []*ast.Ident
	for _, f := range x.Type.Params.List {
		if len(f.Names) == 0 {
			pnames = append(pnames, &ast.Ident{Name: "_"}) // func(V) int64 { return 1 }: an unnamed parameter
		}
		pnames = append(pnames, f.Names...)
	}
	if len(pnames) != sig.Params().Len() {
		return
	}
	sub := st.clone()
	fv.nfresh++
	var binders []string
	var params []Term
	for i, pn := range pnames {
		pt := sig.Params().At(i).Type()
		ps := fv.sortOf(pt)
		name := fmt.Sprintf("c%d?%d", i, fv.nfresh)
		binders = append(binders, fmt.Sprintf("(%s %s)", name, ps))
		pterm := Term{S: name, Sort: ps, T: pt}
		params = append(params, pterm)
		if pn.Name != "_" {
			sub.vars[fv.info.Defs[pn]] = pterm
		}
	}
	var body Term
	okb := true
	func() {
		defer func() {
			if r := recover(); r != nil {
				if _, isU := r.(unsupported); isU {
					okb = false
					return
				}
				panic(r)
			}
		}()
		save := len(fv.obls)
		names := map[string]int{}
		for k, v := range fv.oblNames {
			names[k] = v
		}
		body = fv.evalExpr(sub, ret.Results[0])
		fv.obls = fv.obls[:save]
		fv.oblNames = names
	}()
	if !okb {
		return
	}
	isOrdShape := len(params) == 2 && params[0].Sort == params[1].Sort && body.Sort == sInt
	if isOrdShape {
		// a comparison adapter: ord(closure, a, b) == body
		lhs := fv.ordTerm(t, params[0], params[1])
		fv.define(st, fmt.Sprintf("(forall (%s) (! (= %s %s) :pattern (%s)))", strings.Join(binders, " "), lhs.S, body.S, lhs.S))
		fv.closureIsOrd[t.S] = true
	}
	// as a pure function value: apply(closure, params…) == body (heap reads are those of the state in which the
	// closure was created; the functions in scope do not modify what their closures read)
	lhs := fv.pureApp(t, params)
	if lhs.Sort == body.Sort {
		fv.define(st, fmt.Sprintf("(forall (%s) (! (= %s %s) :pattern (%s)))", strings.Join(binders, " "), lhs.S, body.S, lhs.S))
		fv.assumptions["closure literals with a single return expression are treated as pure functions of their parameters, reading the heap as it was when the closure was created"] = true
	}
}

// callClosure executes the body of a local helper closure in place (the closure does not escape: it is called by name
// in the function that declares it, so the captured variables are simply the caller's).
func (fv *FV) callClosure(st *State, cl *closure, c *ast.CallExpr) []Term {
	if !cl.inlined {
		fv.fail(c.Pos(), "call of local closure %s", fv.src(c.Fun))
	}
	var pnames []*ast.Ident
	for _, f := range cl.lit.Type.Params.List {
		pnames = append(pnames, f.Names...)
	}
	if len(pnames) != len(c.Args) {
		fv.fail(c.Pos(), "closure %s: argument count", fv.src(c.Fun))
	}
	var args []Term
	for _, a := range c.Args {
		args = append(args, fv.evalExpr(st, a))
	}
	for i, pn := range pnames {
		if pn.Name != "_" {
			v := args[i]
			v.T = fv.info.Defs[pn].Type()
			fv.setVar(st, fv.info.Defs[pn], v)
		}
	}
	stmts := cl.lit.Body.List
	var ret *ast.ReturnStmt
	if n := len(stmts); n > 0 {
		if r, ok := stmts[n-1].(*ast.ReturnStmt); ok {
			ret, stmts = r, stmts[:n-1]
		}
	}
	if end := fv.execBlock(st, stmts); end != nil && end != st {
		*st = *end
	}
	var out []Term
	if ret != nil {
		for _, r := range ret.Results {
			out = append(out, fv.evalExpr(st, r))
		}
	}
	return out
}

// ---------------------------------------------------------------------------
// report / trace roles

// role "report MAP KEYFN": calling f(v, pos) sets MAP[KEYFN(v)] = pos when isReporter(f).
func (fv *FV) reportComps(rf []string) []string {
	if len(rf) < 2 {
		return nil
	}
	gv := fv.lookupGhostVar(fv.pc, rf[1])
	if gv == nil {
		// look in every loaded contract package
		for _, pc := range fv.w.contracts {
			if g := pc.GhostVars[rf[1]]; g != nil {
				gv = g
			}
		}
	}
	if gv == nil {
		return nil
	}
	env := &Env{fv: fv, st: fv.entry, pc: fv.pc, scopePkg: fv.pkg}
	fv.ghostVarTerm(env, gv)
	return []string{"G:" + gv.Name}
}

func (fv *FV) applyReport(st *State, rf []string, f Term, args []Term, pos token.Pos) []Term {
	if len(rf) < 3 || len(args) != 2 {
		fv.fail(pos, "report role: `report MAP KEYFN` on f(value, position)")
	}
	env := &Env{fv: fv, st: st, pc: fv.rolePC(rf[1]), scopePkg: nil, names: map[string]Term{}}
	gv := fv.lookupGhostVar(env.pc, rf[1])
	if gv == nil {
		fv.fail(pos, "report role: unknown ghost map %s", rf[1])
	}
	cur := fv.ghostVarTerm(env, gv)
	key := fv.spec(env.with("v?", args[0]), &SCall{Fn: rf[2], Args: []SExpr{&SIdent{"v?"}}})
	isRep := fv.spec(env.with("f?", f), &SCall{Fn: "isReporter", Args: []SExpr{&SIdent{"f?"}}})
	nv := fv.fresh("rep", cur.Sort)
	fv.define(st, eq(nv, ite(isRep.S, sto(cur.S, key.S, args[1].S), cur.S)))
	fv.heapSet(st, "G:"+gv.Name, nv)
	return nil
}

func (fv *FV) rolePC(ghost string) *PkgContracts {
	if fv.lookupGhostVar(fv.pc, ghost) != nil {
		return fv.pc
	}
	for _, pc := range fv.w.contracts {
		if pc.GhostVars[ghost] != nil {
			return pc
		}
	}
	return fv.pc
}

func (fv *FV) traceComps(rf []string) []string {
	if len(rf) < 2 {
		return nil
	}
	var out []string
	pre := "T:" + rf[1] + ":"
	for key := range fv.compSort {
		if strings.HasPrefix(key, pre) {
			out = append(out, key)
		}
	}
	n := pre + "n"
	fv.compSort[n] = sInt
	found := false
	for _, k := range out {
		if k == n {
			found = true
		}
	}
	if !found {
		out = append(out, n)
	}
	return out
}

// role "trace NAME": every call of the callback appends its arguments to the ghost trace NAME.
func (fv *FV) applyTrace(st *State, rf []string, f Term, args []Term, pos token.Pos) []Term {
	if len(rf) < 2 {
		fv.fail(pos, "trace role: `trace NAME`")
	}
	nkey := "T:" + rf[1] + ":n"
	fv.compSort[nkey] = sInt
	n := fv.heapGet(st, nkey)
	for j, a := range args {
		key := fmt.Sprintf("T:%s:%d:%s", rf[1], j, a.Sort)
		fv.compSort[key] = arr(sInt, a.Sort)
		fv.traceTypes[key] = a.T
		fv.heapSet(st, key, sto(fv.heapGet(st, key), n, a.S))
	}
	fv.heapSet(st, nkey, app("+", n, "1"))
	return nil
}

// ---------------------------------------------------------------------------
// not yet supported (later stages)

func (fv *FV) execRangeFunc(st *State, x *ast.RangeStmt, label string, ord int, ls *LoopSpec, keyObj, valObj types.Object) *State {
	return fv.execRangeFuncMethod(st, x, label, ord, keyObj)
}

func (fv *FV) ifaceCallEffects(eff *loopEffects, callee *types.Func, recvExpr ast.Expr, c *ast.CallExpr) bool {
	return false
}

func (fv *FV) specSetOps(env *Env, c *SCall) (Term, bool) {
	switch c.Fn {
	case "dom":
		// dom(m): the key set of a Go map, as an array K -> Bool (nil map: empty)
		if len(c.Args) != 1 {
			fv.sfail("dom(m)")
		}
		m := fv.spec(env, c.Args[0])
		mt, ok := underMap(m.T)
		if !ok {
			fv.sfail("dom() of a non-map")
		}
		mc := fv.mapInfo(mt)
		return Term{S: fv.mapDomOf(env.st, m, mc), Sort: mc.domS, T: &specType{sort: mc.domS, elem: types.Typ[types.Bool], key: mc.kt}}, true
	case "deref":
		if len(c.Args) != 1 {
			fv.sfail("deref(p)")
		}
		p := fv.spec(env, c.Args[0])
		if p.Sort != "ElemPtr" {
			return p, true // already a value (a pointer-receiver method called on an addressable variable)
		}
		return fv.derefRead(env.st, p, token.NoPos), true
	case "emptyset":
		if len(c.Args) != 1 {
			fv.sfail("emptyset(m)")
		}
		m := fv.spec(env, c.Args[0])
		if is, es := arraySorts(m.Sort); es == sBool && is != "" {
			return Term{S: fv.emptyDom(is), Sort: m.Sort, T: m.T}, true
		}
		fv.sfail("emptyset() needs a set-valued argument")
	case "setadd":
		if len(c.Args) != 2 {
			fv.sfail("setadd(s, x)")
		}
		a := fv.spec(env, c.Args[0])
		x := fv.spec(env, c.Args[1])
		is, _ := arraySorts(a.Sort)
		x, _ = fv.coerce(x, Term{Sort: is})
		if !containsQ(a.S) && !containsQ(x.S) {
			fv.axioms = append(fv.axioms, eq(fv.cardOf(is, sto(a.S, x.S, "true")), app("+", fv.cardOf(is, a.S), ite(sel(a.S, x.S), "0", "1"))))
		}
		return Term{S: sto(a.S, x.S, "true"), Sort: a.Sort, T: a.T}, true
	case "setdel":
		if len(c.Args) != 2 {
			fv.sfail("setdel(s, x)")
		}
		a := fv.spec(env, c.Args[0])
		x := fv.spec(env, c.Args[1])
		is, _ := arraySorts(a.Sort)
		x, _ = fv.coerce(x, Term{Sort: is})
		if !containsQ(a.S) && !containsQ(x.S) {
			fv.axioms = append(fv.axioms, eq(fv.cardOf(is, sto(a.S, x.S, "false")), app("-", fv.cardOf(is, a.S), ite(sel(a.S, x.S), "1", "0"))))
		}
		return Term{S: sto(a.S, x.S, "false"), Sort: a.Sort, T: a.T}, true
	case "card":
		if len(c.Args) != 1 {
			fv.sfail("card(s)")
		}
		a := fv.spec(env, c.Args[0])
		is, _ := arraySorts(a.Sort)
		fv.cardFacts(env.st, is, a.S)
		return Term{S: fv.cardOf(is, a.S), Sort: sInt, T: types.Typ[types.Int]}, true
	}
	return Term{}, false
}
func (fv *FV) load64(st *State, s Term, i string) Term {
	fv.sfail("load64 not supported yet")
	return Term{}
}

// applyLemma: `at ANCHOR: apply name(args)`. The lemma `premise ==> forall j :: Q(j)` is proved here, in the
// current state, by its induction step (strong induction on the naturals is the one trusted meta-step) and
// then assumed for the current state.
func (fv *FV) applyLemma(st *State, env *Env, g *GhostStmt, pos token.Pos) {
	call, ok := g.RHS.(*SCall)
	if !ok {
		fv.sfail("apply: expected lemma(args)")
	}
	var lm *Lemma
	seen := map[*PkgContracts]bool{}
	var look func(pc *PkgContracts)
	look = func(pc *PkgContracts) {
		if pc == nil || seen[pc] || lm != nil {
			return
		}
		seen[pc] = true
		if l := pc.Lemmas[call.Fn]; l != nil {
			lm = l
			return
		}
		for _, imp := range pc.Imports {
			look(fv.w.contracts[imp])
		}
	}
	look(fv.pc)
	if lm == nil {
		fv.sfail("apply: unknown lemma %s", call.Fn)
	}
	if len(lm.Params) != len(call.Args) {
		fv.sfail("apply %s: %d arguments expected", lm.Name, len(lm.Params))
	}
	lenv := &Env{fv: fv, st: st, old: env.old, names: map[string]Term{}, pc: lm.Pkg, qdepth: 0}
	for i, p := range lm.Params {
		lenv.names[p.Name] = fv.spec(env, call.Args[i])
	}
	if lm.Trusted || lm.InductOn == "" {
		// a trusted lemma (a stated mathematical fact, listed among the assumptions) or a lemma without induction:
		// the instance is assumed, respectively asserted, for the given arguments
		phi := fv.specBool(lenv, lm.Expr)
		if lm.Trusted {
			fv.assumptions["trusted lemma "+lm.Name+" ("+shortPkg(lm.Pkg.Path)+"): "+strings.TrimSpace(lm.Src)] = true
		} else {
			fv.oblige(st, "lemma."+lm.Name, phi, "lemma "+lm.Name+": "+lm.Src, g.Tags, pos)
		}
		fv.assume(st, phi)
		return
	}
	imp, ok := lm.Expr.(*SBin)
	var premise SExpr
	body := lm.Expr
	if ok && imp.Op == "==>" {
		premise, body = imp.L, imp.R
	}
	q, ok := body.(*SQuant)
	if !ok || !q.Forall || len(q.Vars) != 1 || q.Vars[0].Name != lm.InductOn {
		fv.sfail("lemma %s: expected `premise ==> forall %s int :: Q` with induction on %s", lm.Name, lm.InductOn, lm.InductOn)
	}
	prem := "true"
	if premise != nil {
		prem = fv.specBool(lenv, premise)
	}
	// induction step for an arbitrary j0
	j0 := Term{S: fv.fresh(lm.InductOn+"0", sInt), Sort: sInt, T: types.Typ[types.Int]}
	qj0 := fv.specBool(lenv.with(lm.InductOn, j0), q.Body)
	// build IH directly: forall k. 0 <= k < j0 ==> Q(k)
	e2, binders := fv.bindQuant(lenv, q)
	k := e2.names[lm.InductOn]
	qk := fv.specBool(e2, q.Body)
	pats := fv.quantPatterns(e2, q)
	bodyK := implies(and(app("<=", "0", k.S), app("<", k.S, j0.S)), qk)
	if pats != "" {
		bodyK = "(! " + bodyK + " " + pats + ")"
	}
	ihS := fmt.Sprintf("(forall (%s) %s)", binders, bodyK)
	sub := st.clone()
	fv.assume(sub, prem)
	fv.assume(sub, ihS)
	// hints seed the terms the instantiation needs
	for _, h := range lm.Hints {
		fv.pendingFacts = nil
		t := fv.spec(lenv.with(lm.InductOn, j0), h)
		for _, f := range fv.pendingFacts {
			fv.assume(sub, f)
		}
		fv.pendingFacts = nil
		c := fv.fresh("hint", t.Sort)
		fv.define(sub, eq(c, t.S))
	}
	fv.oblige(sub, "lemma."+lm.Name+".step", qj0, "induction step of lemma "+lm.Name+": "+lm.Src, g.Tags, pos)
	fv.assumptions["lemma "+lm.Name+" is proved by its induction step; the principle of strong induction on the naturals is the trusted meta-step"] = true
	// the lemma itself, for the current state
	concl := fv.specBool(lenv, body)
	fv.assume(st, implies(prem, concl))
}

// ---------------------------------------------------------------------------
// Locals that only ever hold known functions (`next := (*Ring[T]).Next; if … { next = (*Ring[T]).Prev }`).
// A call through such a local is a case split over its candidates, each called by its own contract.

type funcCand struct {
	fn         *types.Func
	methodExpr bool // (*T).M: the receiver is the first argument of the call
}

func (c funcCand) recvArg(call *ast.CallExpr) ast.Expr {
	if c.methodExpr && len(call.Args) > 0 {
		return call.Args[0]
	}
	return nil
}

func (c funcCand) args(call *ast.CallExpr) []ast.Expr {
	if c.methodExpr && len(call.Args) > 0 {
		return call.Args[1:]
	}
	return call.Args
}

// funcOfExpr recognises an expression that denotes a declared function or a method expression.
func (fv *FV) funcOfExpr(e ast.Expr) (funcCand, bool) {
	switch x := ast.Unparen(e).(type) {
	case *ast.Ident:
		if f, ok := fv.info.ObjectOf(x).(*types.Func); ok {
			return funcCand{fn: f}, true
		}
	case *ast.IndexExpr:
		if id, ok := x.X.(*ast.Ident); ok {
			if f, ok := fv.info.ObjectOf(id).(*types.Func); ok {
				return funcCand{fn: f}, true
			}
		}
	case *ast.SelectorExpr:
		if sel := fv.info.Selections[x]; sel != nil && sel.Kind() == types.MethodExpr {
			if f, ok := sel.Obj().(*types.Func); ok {
				return funcCand{fn: f, methodExpr: true}, true
			}
		}
	}
	return funcCand{}, false
}

func (fv *FV) collectFuncCands(body *ast.BlockStmt) map[types.Object][]funcCand {
	out := map[types.Object][]funcCand{}
	bad := map[types.Object]bool{}
	note := func(lhs ast.Expr, rhs ast.Expr) {
		id, ok := ast.Unparen(lhs).(*ast.Ident)
		if !ok {
			return
		}
		o := fv.info.ObjectOf(id)
		if o == nil {
			return
		}
		if _, isSig := o.Type().Underlying().(*types.Signature); !isSig {
			return
		}
		if rhs == nil {
			bad[o] = true
			return
		}
		c, ok := fv.funcOfExpr(rhs)
		if !ok {
			bad[o] = true
			return
		}
		for _, have := range out[o] {
			if have.fn == c.fn {
				return
			}
		}
		out[o] = append(out[o], c)
	}
	ast.Inspect(body, func(n ast.Node) bool {
		switch y := n.(type) {
		case *ast.AssignStmt:
			if len(y.Lhs) == len(y.Rhs) {
				for i := range y.Lhs {
					note(y.Lhs[i], y.Rhs[i])
				}
			} else {
				for _, l := range y.Lhs {
					note(l, nil)
				}
			}
		case *ast.ValueSpec:
			for i, nm := range y.Names {
				if i < len(y.Values) {
					note(nm, y.Values[i])
				} else {
					note(nm, nil)
				}
			}
		case *ast.UnaryExpr:
			if y.Op == token.AND { // address taken: anything may be stored
				if id, ok := ast.Unparen(y.X).(*ast.Ident); ok {
					if o := fv.info.ObjectOf(id); o != nil {
						bad[o] = true
					}
				}
			}
		}
		return true
	})
	for o := range bad {
		delete(out, o)
	}
	return out
}

// callCandidates calls a function-valued local through each of the functions it can hold.
func (fv *FV) callCandidates(st *State, v Term, cands []funcCand, c *ast.CallExpr, what string) []Term {
	var conds []string
	for _, cand := range cands {
		conds = append(conds, eq(v.S, fv.funcValue(cand.fn).S))
	}
	fv.safety(st, "funcvalue["+what+"]", or(conds...), "the function value is one of the functions assigned to "+what, c.Pos())
	var subs []*State
	var results [][]Term
	for i, cand := range cands {
		sub := fv.fork(st, conds[i])
		c2 := &ast.CallExpr{Fun: c.Fun, Lparen: c.Lparen, Args: cand.args(c), Ellipsis: c.Ellipsis, Rparen: c.Rparen}
		if tv, ok := fv.info.Types[c]; ok {
			fv.info.Types[c2] = tv // the synthetic call has the type of the original one
		}
		var recv *Term
		recvExpr := cand.recvArg(c)
		if recvExpr != nil {
			t := fv.evalExpr(sub, recvExpr)
			recv = &t
		}
		results = append(results, fv.callStatic(sub, cand.fn, recv, recvExpr, c2))
		subs = append(subs, sub)
	}
	m := fv.merge(subs...)
	*st = *m
	out := results[len(results)-1]
	for i := len(results) - 2; i >= 0; i-- {
		next := make([]Term, len(out))
		for k := range out {
			next[k] = Term{S: ite(conds[i], results[i][k].S, out[k].S), Sort: out[k].Sort, T: out[k].T}
		}
		out = next
	}
	return out
}
