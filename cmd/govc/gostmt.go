package main

// Statements, loops, function entry/exit.

import (
	"os"
	"fmt"
	"go/ast"
	"go/token"
	"go/types"
	"sort"
	"strings"
)

func (fv *FV) fork(st *State, cond string) *State {
	n := st.clone()
	n.guard = fv.newGuard(n, cond)
	return n
}

func (fv *FV) execBlock(st *State, stmts []ast.Stmt) *State {
	for _, s := range stmts {
		if st == nil {
			return nil
		}
		st = fv.execStmt(st, s, "")
		if st != nil && st.guard == "false" {
			return nil
		}
	}
	return st
}

func (fv *FV) execStmt(st *State, s ast.Stmt, label string) *State {
	switch x := s.(type) {
	case *ast.BlockStmt:
		return fv.execBlock(st, x.List)
	case *ast.EmptyStmt:
		return st
	case *ast.ExprStmt:
		if c, ok := ast.Unparen(x.X).(*ast.CallExpr); ok {
			fv.ghostBefore(st, s)
			fv.evalCall(st, c)
			if st.guard == "false" {
				return nil
			}
			fv.ghostAfter(st, s)
			return st
		}
		fv.fail(x.Pos(), "unsupported expression statement %s", fv.src(x))
	case *ast.AssignStmt:
		fv.ghostBefore(st, s)
		fv.execAssign(st, x)
		fv.ghostAfter(st, s)
		return st
	case *ast.IncDecStmt:
		one := &ast.BasicLit{Kind: token.INT, Value: "1"}
		_ = one
		cur := fv.evalExpr(st, x.X)
		var nv Term
		op := "+"
		if x.Tok == token.DEC {
			op = "-"
		}
		if cur.Sort == sInt {
			nv = Term{S: app(op, cur.S, "1"), Sort: sInt, T: cur.T}
		} else if isBV(cur.Sort) {
			o := "bvadd"
			if x.Tok == token.DEC {
				o = "bvsub"
			}
			nv = Term{S: app(o, cur.S, fmt.Sprintf("(_ bv1 %d)", bvWidth(cur.Sort))), Sort: cur.Sort, T: cur.T}
		} else {
			fv.fail(x.Pos(), "++/-- on %s", cur.Sort)
		}
		fv.assignTo(st, x.X, nv, false)
		fv.ghostAfter(st, s)
		return st
	case *ast.DeclStmt:
		gd, ok := x.Decl.(*ast.GenDecl)
		if !ok || gd.Tok != token.VAR {
			if ok && (gd.Tok == token.CONST || gd.Tok == token.TYPE) {
				return st
			}
			fv.fail(x.Pos(), "unsupported declaration")
		}
		for _, sp := range gd.Specs {
			vs := sp.(*ast.ValueSpec)
			for i, name := range vs.Names {
				obj := fv.info.Defs[name]
				if obj == nil {
					continue
				}
				var v Term
				if i < len(vs.Values) {
					v = fv.evalExpr(st, vs.Values[i])
					v = fv.asParam(v, obj.Type())
				} else if isUserByRef(obj.Type()) {
					v = fv.allocZero(st, obj.Type(), x.Pos()) // a struct held by reference: a fresh zero object
				} else if at, ok := obj.Type().Underlying().(*types.Array); ok {
					// `var a [N]T`: a fresh zeroed backing array of N elements
					n := fmt.Sprint(at.Len())
					v = fv.makeSlice(st, types.NewSlice(at.Elem()), at.Elem(), n, n)
				} else {
					v = fv.zero(obj.Type())
				}
				v.T = obj.Type()
				fv.setVar(st, obj, v)
			}
		}
		fv.ghostAfter(st, s)
		return st
	case *ast.IfStmt:
		if x.Init != nil {
			st = fv.execStmt(st, x.Init, "")
		}
		fv.ghostBefore(st, x)
		c := fv.evalCond(st, x.Cond)
		if st.guard == "false" {
			return nil
		}
		thenSt := fv.fork(st, c)
		elseSt := fv.fork(st, not(c))
		thenSt = fv.execBlock(thenSt, x.Body.List)
		if x.Else != nil {
			elseSt = fv.execStmt(elseSt, x.Else, "")
		}
		return fv.merge(thenSt, elseSt)
	case *ast.ForStmt:
		return fv.execFor(st, x, label)
	case *ast.RangeStmt:
		return fv.execRange(st, x, label)
	case *ast.ReturnStmt:
		if n := len(fv.closureRet); n > 0 {
			// a return of the function literal being run as the body of a yield loop
			ctx := fv.closureRet[n-1]
			var vals []Term
			for _, r := range x.Results {
				vals = append(vals, fv.evalExpr(st, r))
			}
			ctx.ends = append(ctx.ends, st)
			ctx.vals = append(ctx.vals, vals)
			return nil
		}
		fv.execReturn(st, x)
		return nil
	case *ast.BranchStmt:
		lc := fv.findLoop(x)
		switch x.Tok {
		case token.BREAK:
			lc.breaks = append(lc.breaks, st)
		case token.CONTINUE:
			lc.continues = append(lc.continues, st)
		default:
			fv.fail(x.Pos(), "unsupported branch statement %s", x.Tok)
		}
		return nil
	case *ast.LabeledStmt:
		return fv.execStmt(st, x.Stmt, x.Label.Name)
	case *ast.SwitchStmt:
		return fv.execSwitch(st, x, label)
	case *ast.DeferStmt:
		fv.execDefer(st, x)
		return st
	}
	fv.fail(s.Pos(), "unsupported statement %T", s)
	return nil
}

func (fv *FV) findLoop(b *ast.BranchStmt) *loopCtx {
	if len(fv.ctx) == 0 {
		fv.fail(b.Pos(), "%s outside loop", b.Tok)
	}
	if b.Label == nil {
		// innermost loop (or switch for break)
		for i := len(fv.ctx) - 1; i >= 0; i-- {
			if b.Tok == token.CONTINUE && fv.ctx[i].label == "\x00switch" {
				continue
			}
			return fv.ctx[i]
		}
	}
	for i := len(fv.ctx) - 1; i >= 0; i-- {
		if b.Label != nil && fv.ctx[i].label == b.Label.Name {
			return fv.ctx[i]
		}
	}
	fv.fail(b.Pos(), "label not found")
	return nil
}

func (fv *FV) setVar(st *State, obj types.Object, v Term) {
	if v.T == nil || v.Lit {
		v.T = obj.Type()
	}
	v.Lit = false
	if len(v.S) > 80 {
		v = fv.nameTerm(st, obj.Name(), v)
	}
	st.vars[obj] = v
}

func (fv *FV) execAssign(st *State, x *ast.AssignStmt) {
	for _, r := range x.Rhs {
		if tv, ok := fv.info.Types[r]; ok && tv.Type != nil {
			if _, isArr := tv.Type.Underlying().(*types.Array); isArr {
				fv.fail(x.Pos(), "unsupported: assignment copies an array value")
			}
		}
	}
	// op-assign
	if x.Tok != token.ASSIGN && x.Tok != token.DEFINE {
		cur := fv.evalExpr(st, x.Lhs[0])
		r := fv.evalExpr(st, x.Rhs[0])
		op := strings.TrimSuffix(x.Tok.String(), "=")
		var nv Term
		switch op {
		case "/", "%":
			_, rr := fv.coerce(cur, r)
			if rr.Sort == sInt {
				fv.safety(st, "div["+fv.src(x)+"]", not(eq(rr.S, "0")), "divisor non-zero: "+fv.src(x), x.Pos())
			}
			nv = fv.arith(op, cur, r, true, st, x.Pos())
		case "<<", ">>":
			if isBV(cur.Sort) {
				rr := r
				if rr.Sort == sInt && rr.Lit {
					rr, _ = fv.coerce(rr, cur)
				}
				nv = fv.arith(op, cur, rr, true, st, x.Pos())
			} else {
				fv.fail(x.Pos(), "shift-assign on %s", cur.Sort)
			}
		default:
			nv = fv.arith(op, cur, r, true, st, x.Pos())
		}
		nv.T = cur.T
		fv.assignTo(st, x.Lhs[0], nv, false)
		return
	}
	define := x.Tok == token.DEFINE
	var vals []Term
	if len(x.Rhs) == 1 && len(x.Lhs) > 1 {
		vals = fv.evalTuple(st, x.Rhs[0], len(x.Lhs))
	} else {
		for _, r := range x.Rhs {
			v := fv.evalExpr(st, r)
			if v.T != nil && isUserByRef(v.T) && !freshValueExpr(r) {
				v.Shared = true // somebody else holds this object: an assignment has to copy it
			}
			vals = append(vals, v)
		}
	}
	if st.guard == "false" {
		return
	}
	if len(vals) != len(x.Lhs) {
		fv.fail(x.Pos(), "assignment count mismatch")
	}
	// evaluate index/selector operands of the left side before any assignment
	type lhsPrep struct {
		base, idx Term
	}
	preps := make([]lhsPrep, len(x.Lhs))
	if len(x.Lhs) > 1 {
		for i, l := range x.Lhs {
			switch y := ast.Unparen(l).(type) {
			case *ast.IndexExpr:
				preps[i].base = fv.evalExpr(st, y.X)
				preps[i].idx = fv.evalExpr(st, y.Index)
			case *ast.SelectorExpr:
				preps[i].base = fv.evalExpr(st, y.X)
			}
		}
	}
	// exchange of two elements of one slice: a[i], a[j] = a[j], a[i]  (ground instance of the exchange lemma)
	swapBag := false
	var bagBefore Term
	if fv.usesBag() && len(x.Lhs) == 2 && preps[0].base.S != "" && preps[0].base.S == preps[1].base.S && preps[0].base.Sort == sSlice && preps[0].idx.S != "" && preps[1].idx.S != "" {
		a := preps[0].base
		r0 := fv.indexTerm(st, a, fv.toInt(preps[0].idx))
		r1 := fv.indexTerm(st, a, fv.toInt(preps[1].idx))
		if vals[0].S == r1.S && vals[1].S == r0.S {
			swapBag = true
			bagBefore = fv.bagTerm(st, a, "0", "(slen "+a.S+")")
			fv.inSwap = true
		}
	}
	for i, l := range x.Lhs {
		if len(x.Lhs) > 1 && preps[i].base.S != "" {
			fv.assignPrepared(st, l, preps[i].base, preps[i].idx, vals[i])
			continue
		}
		fv.assignTo(st, l, vals[i], define)
		if i < len(x.Rhs) && len(x.Rhs) == len(x.Lhs) {
			if lit, ok := ast.Unparen(x.Rhs[i]).(*ast.FuncLit); ok {
				if id, ok := ast.Unparen(l).(*ast.Ident); ok {
					if obj := fv.info.ObjectOf(id); obj != nil {
						fv.closures[obj] = &closure{lit: lit, obj: obj, term: vals[i], inlined: inlinable(lit)}
					}
				}
			}
		}
	}
	if swapBag {
		fv.inSwap = false
		after := fv.bagTerm(st, preps[0].base, "0", "(slen "+preps[0].base.S+")")
		fv.define(st, eq(after.S, bagBefore.S))
	}
}

// evalTuple evaluates a multi-valued right-hand side.
func (fv *FV) evalTuple(st *State, e ast.Expr, n int) []Term {
	switch y := ast.Unparen(e).(type) {
	case *ast.CallExpr:
		rs := fv.evalCall(st, y)
		if st.guard == "false" {
			return rs
		}
		if len(rs) != n {
			fv.fail(e.Pos(), "call %s yields %d values, want %d", fv.src(e), len(rs), n)
		}
		return rs
	case *ast.IndexExpr:
		m := fv.evalExpr(st, y.X)
		if mt, ok := underMap(m.T); ok && n == 2 {
			k := fv.evalExpr(st, y.Index)
			v := fv.mapRead(st, m, k, mt)
			return []Term{v, {S: fv.mapHas(st, m, k, mt), Sort: sBool, T: types.Typ[types.Bool]}}
		}
	case *ast.TypeAssertExpr:
		if n == 2 {
			v := fv.evalExpr(st, y)
			return []Term{v, mkBool(true)}
		}
	}
	fv.fail(e.Pos(), "unsupported multi-value expression %s", fv.src(e))
	return nil
}

func (fv *FV) assignPrepared(st *State, l ast.Expr, base, idx Term, v Term) {
	switch y := ast.Unparen(l).(type) {
	case *ast.IndexExpr:
		fv.storeIndex(st, base, idx, v, y)
	case *ast.SelectorExpr:
		fv.storeField(st, base, y.Sel.Name, v, y)
	}
}

func (fv *FV) assignTo(st *State, l ast.Expr, v Term, define bool) {
	switch y := ast.Unparen(l).(type) {
	case *ast.Ident:
		if y.Name == "_" {
			return
		}
		var obj types.Object
		if define {
			obj = fv.info.Defs[y]
		}
		if obj == nil {
			obj = fv.info.ObjectOf(y)
		}
		if obj == nil {
			fv.fail(y.Pos(), "unresolved %s", y.Name)
		}
		if vv, ok := obj.(*types.Var); ok && !vv.IsField() && vv.Parent() == vv.Pkg().Scope() {
			fv.fail(y.Pos(), "assignment to package variable %s", y.Name)
		}
		if isUserByRef(obj.Type()) {
			// a struct held by reference: `x = y` copies into x's object, `x := y` gives x a copy of its own
			if cur, has := st.vars[obj]; has && !define {
				fv.copyStruct(st, cur.S, v.S, obj.Type())
				return
			}
			if v.Shared {
				v = fv.cloneStruct(st, Term{S: v.S, Sort: sInt, T: obj.Type()})
			}
			v.Shared = false
		}
		v = fv.asParam(v, obj.Type())
		v.T = obj.Type()
		fv.setVar(st, obj, v)
	case *ast.IndexExpr:
		base := fv.evalExpr(st, y.X)
		idx := fv.evalExpr(st, y.Index)
		fv.storeIndex(st, base, idx, v, y)
	case *ast.SelectorExpr:
		sel := fv.info.Selections[y]
		if sel == nil || sel.Kind() != types.FieldVal {
			fv.fail(y.Pos(), "unsupported assignment target %s", fv.src(y))
		}
		base := fv.evalExpr(st, y.X)
		fv.storeField(st, base, y.Sel.Name, v, y)
	case *ast.StarExpr:
		p := fv.evalExpr(st, y.X)
		fv.storeDeref(st, p, v, y)
	default:
		fv.fail(l.Pos(), "unsupported assignment target %s", fv.src(l))
	}
}

func (fv *FV) storeIndex(st *State, base, idx, v Term, y *ast.IndexExpr) {
	if mt, ok := underMap(base.T); ok {
		fv.mapWrite(st, base, idx, v, mt, y.Pos())
		return
	}
	if base.Sort != sSlice {
		fv.fail(y.Pos(), "index assignment to %s", base.Sort)
	}
	idx = fv.toInt(idx)
	fv.safety(st, "idx["+fv.src(y)+"]", and(app("<=", "0", idx.S), app("<", idx.S, "(slen "+base.S+")")), "index in range: "+fv.src(y), y.Pos())
	et := elemType(base.T)
	key, _ := fv.elemComp(et)
	v, _ = fv.coerce(v, Term{Sort: fv.sortOf(et), T: et})
	E := fv.heapGet(st, key)
	b := "(sbase " + base.S + ")"
	var before Term
	var oldElem string
	if fv.usesBag() && !fv.inSwap {
		before = fv.bagTerm(st, base, "0", "(slen "+base.S+")")
		oldElem = sel(sel(E, b), elemAddr(base.S, idx.S))
	}
	fv.heapSet(st, key, sto(E, b, sto(sel(E, b), elemAddr(base.S, idx.S), v.S)))
	if fv.usesBag() && !fv.inSwap {
		// ground instance of the point-update lemma for the window of this slice
		after := fv.bagTerm(st, base, "0", "(slen "+base.S+")")
		b1 := sto(before.S, oldElem, app("-", sel(before.S, oldElem), "1"))
		fv.define(st, eq(after.S, sto(b1, v.S, app("+", sel(b1, v.S), "1"))))
	}
}

func (fv *FV) storeField(st *State, base Term, name string, v Term, y *ast.SelectorExpr) {
	if isUserByRef(base.T) {
		base.T = types.NewPointer(base.T) // a struct held by reference
	}
	pt, ok := base.T.Underlying().(*types.Pointer)
	if !ok {
		// struct value held in a local variable: rebuild the value
		if id, ok2 := ast.Unparen(y.X).(*ast.Ident); ok2 {
			obj := fv.info.ObjectOf(id)
			if cur, has := st.vars[obj]; has {
				_, sty := structOf(cur.T)
				if sty != nil {
					s := fv.sortOf(cur.T)
					var fs []string
					for i := 0; i < sty.NumFields(); i++ {
						if sty.Field(i).Name() == name {
							vv, _ := fv.coerce(v, Term{Sort: fv.sortOf(sty.Field(i).Type())})
							fs = append(fs, vv.S)
						} else {
							fs = append(fs, fmt.Sprintf("(%s_%s %s)", s, symName(sty.Field(i).Name()), cur.S))
						}
					}
					fv.setVar(st, obj, Term{S: "(mk-" + s + " " + strings.Join(fs, " ") + ")", Sort: s, T: cur.T})
					return
				}
			}
		}
		fv.fail(y.Pos(), "field assignment through non-pointer %s", fv.src(y))
	}
	fv.safety(st, "nil["+fv.src(y)+"]", not(eq(base.S, "0")), "nil dereference: "+fv.src(y), y.Pos())
	fv.guardCheck(st, base, name, fv.src(y), y.Pos())
	named, sty := structOf(pt.Elem())
	f := findField(sty, name)
	key, _ := fv.fieldComp(named, f)
	if isUserByRef(f.Type()) {
		// the field is an embedded object: assignment copies into it
		fv.copyStruct(st, sel(fv.heapGet(st, key), base.S), v.S, f.Type())
		return
	}
	v, _ = fv.coerce(v, Term{Sort: fv.sortOf(f.Type()), T: f.Type()})
	if v.Sort != fv.sortOf(f.Type()) {
		fv.fail(y.Pos(), "field %s: sort mismatch %s vs %s", name, v.Sort, fv.sortOf(f.Type()))
	}
	fv.heapSet(st, key, sto(fv.heapGet(st, key), base.S, v.S))
}

func (fv *FV) storeDeref(st *State, p, v Term, y *ast.StarExpr) {
	if p.Sort == "ElemPtr" && p.Word {
		// unsafe 64-bit store into a byte slice: 8 adjacent bytes
		key, _ := fv.elemComp(types.Typ[types.Uint8])
		E := fv.heapGet(st, key)
		b := "(epbase " + p.S + ")"
		vv, _ := fv.coerce(v, Term{Sort: sBV64})
		a := sel(E, b)
		for k := 0; k < 8; k++ {
			a = sto(a, app("+", "(epidx "+p.S+")", fmt.Sprint(k)), fmt.Sprintf("((_ extract %d %d) %s)", 8*k+7, 8*k, vv.S))
		}
		fv.heapSet(st, key, sto(E, b, a))
		return
	}
	if p.Sort == "ElemPtr" {
		et := p.T.Underlying().(*types.Pointer).Elem()
		key, _ := fv.elemComp(et)
		E := fv.heapGet(st, key)
		b := "(epbase " + p.S + ")"
		fv.heapSet(st, key, sto(E, b, sto(sel(E, b), "(epidx "+p.S+")", v.S)))
		return
	}
	if pt, ok := p.T.Underlying().(*types.Pointer); ok {
		if named, sty := structOf(pt.Elem()); sty != nil && named != nil {
			fv.safety(st, "nil[*]", not(eq(p.S, "0")), "nil dereference", y.Pos())
			s := fv.sortOf(pt.Elem())
			for i := 0; i < sty.NumFields(); i++ {
				key, _ := fv.fieldComp(named, sty.Field(i))
				fv.heapSet(st, key, sto(fv.heapGet(st, key), p.S, fmt.Sprintf("(%s_%s %s)", s, symName(sty.Field(i).Name()), v.S)))
			}
			return
		}
		et := pt.Elem()
		key := "P:" + fv.sortOf(et)
		fv.compSort[key] = arr(sInt, fv.sortOf(et))
		fv.safety(st, "nil[*]", not(eq(p.S, "0")), "nil dereference", y.Pos())
		vv, _ := fv.coerce(v, Term{Sort: fv.sortOf(et)})
		fv.heapSet(st, key, sto(fv.heapGet(st, key), p.S, vv.S))
		return
	}
	fv.fail(y.Pos(), "unsupported store through pointer")
}

// ---------------------------------------------------------------------------
// return / exit

func (fv *FV) postEnv(st *State, results []Term) *Env {
	names := map[string]Term{}
	for k, v := range fv.entryNames {
		names[k] = v
	}
	if fv.fc != nil {
		for _, g := range fv.fc.GhostRet {
			if v, ok := st.ghost[g.Name]; ok {
				names[g.Name] = v
			}
		}
	}
	for i, n := range fv.resNames {
		if n != "" && n != "_" && i < len(results) {
			names[n] = results[i]
		}
	}
	return &Env{fv: fv, st: st, old: fv.entry, names: names, oldNames: fv.entryNames, pc: fv.pc, results: results, self: fv.fi, scopePkg: nil}
}

func (fv *FV) execReturn(st *State, x *ast.ReturnStmt) {
	var results []Term
	sig := fv.fi.Obj.Type().(*types.Signature)
	nres := sig.Results().Len()
	switch {
	case len(x.Results) == 0 && nres > 0:
		for _, o := range fv.results {
			results = append(results, st.vars[o])
		}
	case len(x.Results) == 1 && nres > 1:
		results = fv.evalTuple(st, x.Results[0], nres)
	default:
		for i, r := range x.Results {
			fv.inReturn++
			v := fv.evalExpr(st, r)
			fv.inReturn--
			v = fv.asParam(v, sig.Results().At(i).Type())
			v.T = sig.Results().At(i).Type()
			results = append(results, v)
		}
	}
	if st.guard == "false" {
		return
	}
	fv.doReturn(st, results, x.Pos())
}

func (fv *FV) doReturn(st *State, results []Term, pos token.Pos) {
	fv.retOrd++
	k := fv.retOrd
	// deferred calls, LIFO
	for i := len(fv.deferred) - 1; i >= 0; i-- {
		fv.deferred[i](st)
	}
	fv.curResults = results
	fv.ghostAt(st, fmt.Sprintf("return %d", k), pos) // ghost updates that need the values being returned (`result`)
	fv.ghostAt(st, "exit", pos)
	fv.curResults = nil
	if fv.fc == nil {
		return
	}
	env := fv.postEnv(st, results)
	// reachability cover: a contradictory context (an inconsistent callee contract, a wrong axiom) would discharge
	// everything below; `unsat` here is a failure of the check, not of the code
	fv.obligeSat(st, fmt.Sprintf("vacuity.return.r%d", k), "this return is reachable under everything assumed on the way")
	if fv.fc.PanicsWhen != nil {
		fv.oblige(st, fmt.Sprintf("panic.missing.r%d", k), not(fv.panicsEntry()), "the function must panic when "+fv.fc.PanicsSrc+" (normal return reached)", nil, pos)
	}
	for i, e := range fv.fc.Ensures {
		lbl := e.Label
		if lbl == "" {
			lbl = fmt.Sprint(i + 1)
		}
		if !fv.tagOK(e.Tags) {
			continue
		}
		if e.Assumed {
			fv.assumptions["postcondition `"+lbl+"` of "+fv.fi.FullName()+" is assumed at call sites and checked by a bounded stand-in only"] = true
			continue
		}
		parts := fv.splitConj(env, e.Expr)
		for j, phi := range parts {
			name := fmt.Sprintf("post.%s.r%d", lbl, k)
			if len(parts) > 1 {
				name = fmt.Sprintf("post.%s/%d.r%d", lbl, j+1, k)
			}
			fv.oblige(st, name, phi, "ensures "+e.Src, e.Tags, pos)
		}
	}
	fv.frameObligations(st, k, pos)
}

// frameObligations: everything allocated at entry and outside `modifies` is unchanged.
func (fv *FV) frameObligations(st *State, k int, pos token.Pos) {
	env := fv.postEnv(fv.entry, nil)
	env.st = fv.entry
	targets := fv.modTargets(env, fv.fc.Modifies)
	by := map[string][]modTarget{}
	whole := map[string]bool{}
	for _, t := range targets {
		if t.ref == "" {
			whole[t.key] = true
		} else {
			by[t.key] = append(by[t.key], t)
		}
	}
	var keys []string
	for key := range fv.written {
		keys = append(keys, key)
	}
	sort.Strings(keys)
	alloc0 := compConst("alloc")
	fv.ensureAlloc()
	for _, key := range keys {
		if whole[key] || key == "alloc" || key == "L:acq" {
			continue // L:acq counts this call's own lock acquisitions: per-call bookkeeping, not state
		}
		cur, ok := st.heap[key]
		if !ok || cur.S == compConst(key) {
			continue
		}
		sortc := fv.compSort[key]
		if !strings.HasPrefix(sortc, "(Array ") {
			// scalar ghost component
			fv.oblige(st, fmt.Sprintf("frame[%s].r%d", key, k), eq(cur.S, fv.heapGet(fv.entry, key)), "frame: "+key+" is not in `modifies`", nil, pos)
			continue
		}
		is, _ := arraySorts(sortc)
		if strings.HasPrefix(key, "E:") {
			// element stores: per index, so that `elems(s)` confines writes to the window of s
			var excl []string
			for _, t := range by[key] {
				if t.lo == "" {
					excl = append(excl, not(eq("r", t.ref)))
				} else {
					excl = append(excl, not(and(eq("r", t.ref), app("<=", t.lo, "x"), app("<", "x", t.hi))))
				}
			}
			fv.omarkDecl()
			phi := fmt.Sprintf("(forall ((r Int) (x Int)) (=> %s (= (select (select %s r) x) (select (select %s r) x))))", and(append([]string{"(omark x)", sel(alloc0, "r"), not(eq("r", "0"))}, excl...)...), cur.S, fv.heapGet(fv.entry, key))
			fv.oblige(st, fmt.Sprintf("frame[%s].r%d", key, k), phi, "frame: only elements named in `modifies` (or of freshly allocated arrays) change in "+key, nil, pos)
			continue
		}
		var excl []string
		for _, t := range by[key] {
			excl = append(excl, not(eq("r", t.ref)))
		}
		guardAlloc := "true"
		if is == sInt && !strings.HasPrefix(key, "C:") && !strings.HasPrefix(key, "G:") {
			guardAlloc = and(sel(alloc0, "r"), not(eq("r", "0"))) // fields of the nil object are never read
		}
		phi := fmt.Sprintf("(forall ((r %s)) (=> %s (= (select %s r) (select %s r))))", is, and(append([]string{guardAlloc}, excl...)...), cur.S, fv.heapGet(fv.entry, key))
		fv.oblige(st, fmt.Sprintf("frame[%s].r%d", key, k), phi, "frame: only locations in `modifies` (or freshly allocated) change in "+key, nil, pos)
	}
}

// ---------------------------------------------------------------------------
// function verification

func (fv *FV) verify() (err error) {
	defer func() {
		if r := recover(); r != nil {
			if u, ok := r.(unsupported); ok {
				err = u
				return
			}
			panic(r)
		}
	}()
	fd := fv.fi.Decl
	if fd.Body == nil {
		return unsupported{"no body"}
	}
	st := &State{vars: map[types.Object]Term{}, ghost: map[string]Term{}, heap: map[string]Term{}, guard: "true"}
	fv.entryNames = map[string]Term{}
	sig := fv.fi.Obj.Type().(*types.Signature)
	declare := func(v *types.Var) {
		if v == nil || v.Name() == "" || v.Name() == "_" {
			return
		}
		s := fv.sortOf(v.Type())
		c := fv.fresh(v.Name(), s)
		t := Term{S: c, Sort: s, T: v.Type()}
		st.vars[v] = t
		fv.entryNames[v.Name()] = t
		fv.assumeWF(st, t)
	}
	if fd.Recv != nil && len(fd.Recv.List) > 0 && len(fd.Recv.List[0].Names) > 0 {
		declare(fv.info.Defs[fd.Recv.List[0].Names[0]].(*types.Var))
	}
	for _, f := range fd.Type.Params.List {
		for _, n := range f.Names {
			if v, ok := fv.info.Defs[n].(*types.Var); ok {
				declare(v)
			}
		}
	}
	_ = sig
	body := fd.Body
	if fv.fc != nil && fv.fc.Seq != "" {
		// a function that only returns a range function: what is verified is the body of that function literal, with
		// the outer parameters as they are at the time of the call (the only supported use is `for … := range f(…)`,
		// which invokes the literal at once)
		var lit *ast.FuncLit
		if len(fd.Body.List) == 1 {
			if rs, ok := fd.Body.List[0].(*ast.ReturnStmt); ok && len(rs.Results) == 1 {
				lit, _ = ast.Unparen(rs.Results[0]).(*ast.FuncLit)
			}
		}
		if lit == nil || lit.Type.Results != nil || len(lit.Type.Params.List) != 1 || len(lit.Type.Params.List[0].Names) != 1 || lit.Type.Params.List[0].Names[0].Name != fv.fc.Seq {
			return unsupported{"seq contract: the body must be `return func(" + fv.fc.Seq + " func(T) bool) { … }`"}
		}
		declare(fv.info.Defs[lit.Type.Params.List[0].Names[0]].(*types.Var))
		body = lit.Body
		fv.assumptions["range functions: the function literal returned by "+fv.fi.FullName()+" is verified as if invoked at once, with the parameters of the enclosing call unchanged (true of `for … := range f(…)`, the only use the engine accepts)"] = true
	}
	// results
	if fd.Type.Results != nil && body == fd.Body {
		for _, f := range fd.Type.Results.List {
			if len(f.Names) == 0 {
				fv.resNames = append(fv.resNames, "")
				fv.results = append(fv.results, nil)
				continue
			}
			for _, n := range f.Names {
				v := fv.info.Defs[n].(*types.Var)
				st.vars[v] = fv.zero(v.Type())
				fv.results = append(fv.results, v)
				fv.resNames = append(fv.resNames, n.Name)
			}
		}
	}
	// ghost parameters
	if fv.fc != nil {
		for _, g := range fv.fc.Ghost {
			env := fv.localEnv(st, fd.Body.Lbrace+1)
			t := fv.resolveType(env, g.Type)
			s := fv.sortOf(t)
			c := Term{S: fv.fresh(g.Name, s), Sort: s, T: t}
			st.ghost[g.Name] = c
			fv.entryNames[g.Name] = c
		}
	}
	if fv.fc != nil {
		for _, g := range fv.fc.GhostRet {
			env := fv.localEnv(st, fd.Body.Lbrace+1)
			t := fv.resolveType(env, g.Type)
			s := fv.sortOf(t)
			st.ghost[g.Name] = Term{S: fv.fresh(g.Name, s), Sort: s, T: t}
		}
	}
	fv.numberLoops(body)
	if fv.fc != nil {
		for _, g := range fv.fc.Ghosts {
			if (strings.HasPrefix(g.Anchor, "after ") || strings.HasPrefix(g.Anchor, "before ")) && fv.ghostLoops[g] == nil {
				fv.fail(fd.Pos(), "ghost statement anchored at %s: no such statement in %s", g.Anchor, fv.fi.FullName())
			}
		}
	}
	fv.funcCands = fv.collectFuncCands(body)
	fv.entry = st.clone()
	fv.emitAxioms(st)
	if fv.fc != nil {
		env := fv.postEnv(st, nil)
		for _, r := range fv.fc.Requires {
			if fv.tagOK(r.Tags) {
				fv.assume(st, fv.specBool(env, r.Expr))
			}
		}
		fv.entry = st.clone()
		fv.obligeSat(st, "vacuity.requires", "the preconditions are satisfiable")
	}
	fv.ghostAt(st, "entry", body.Lbrace)
	end := fv.execBlock(st, body.List)
	if end != nil && end.guard != "false" {
		var results []Term
		for _, o := range fv.results {
			if o == nil {
				fv.fail(fd.Body.Rbrace, "missing return")
			}
			results = append(results, end.vars[o])
		}
		fv.doReturn(end, results, fd.Body.Rbrace)
	}
	return nil
}

func (fv *FV) numberLoops(body *ast.BlockStmt) {
	n := 0
	fv.ghostLoops = map[*GhostStmt]map[int]bool{}
	var stack []int
	var visit func(nd ast.Node)
	var noteText func(text string)
	note := func(s ast.Stmt) {
		noteText(normSpace(fv.srcFull(s)))
	}
	noteText = func(text string) {
		if fv.fc == nil {
			return
		}
		text = normSpace(text)
		if os.Getenv("GOVC_TRACE") == "anchors" {
			fmt.Fprintf(os.Stderr, "anchor candidate: %q\n", text)
		}
		for _, g := range fv.fc.Ghosts {
			var want string
			switch {
			case strings.HasPrefix(g.Anchor, "after "):
				want = g.Anchor[6:]
			case strings.HasPrefix(g.Anchor, "before "):
				want = g.Anchor[7:]
			default:
				continue
			}
			if normSpace(strings.Trim(strings.TrimSpace(want), "\"")) == text {
				m := fv.ghostLoops[g]
				if m == nil {
					m = map[int]bool{}
					fv.ghostLoops[g] = m
				}
				for _, k := range stack {
					m[k] = true
				}
			}
		}
	}
	visit = func(nd ast.Node) {
		ast.Inspect(nd, func(c ast.Node) bool {
			if c == nil || c == nd {
				return true
			}
			switch x := c.(type) {
			case *ast.ForStmt:
				n++
				fv.loopOrd[x] = n
				fv.loopNest[n] = append([]int(nil), stack...)
				stack = append(stack, n)
				visit(x)
				stack = stack[:len(stack)-1]
				return false
			case *ast.RangeStmt:
				n++
				fv.loopOrd[x] = n
				fv.loopNest[n] = append([]int(nil), stack...)
				stack = append(stack, n)
				visit(x)
				stack = stack[:len(stack)-1]
				return false
			case *ast.CallExpr:
				if _, yi, lit := fv.yieldLitArg(x); yi >= 0 {
					// a function literal received by a yield parameter is verified as a loop body: it takes the next
					// loop ordinal, in source order
					n++
					fv.loopOrd[fv.litStmt(lit)] = n
					fv.loopNest[n] = append([]int(nil), stack...)
					stack = append(stack, n)
					visit(lit.Body)
					stack = stack[:len(stack)-1]
				}
			case *ast.ExprStmt:
				note(x)
			case *ast.AssignStmt:
				note(x)
			case *ast.IncDecStmt:
				note(x)
			case *ast.DeclStmt:
				note(x)
			case *ast.IfStmt:
				noteText("if " + fv.src(x.Cond))
			}
			return true
		})
	}
	visit(body)
}

// ---------------------------------------------------------------------------
// loops

type loopEffects struct {
	locals  map[types.Object]bool
	comps   map[string]bool // heap components written somewhere in the body
	targets []effTarget
	allocs  bool
	body    *ast.BlockStmt
}

type effTarget struct {
	wholeArray bool // append: may write beyond len
	key        string
	base       ast.Expr // expression whose value identifies the reference (pointer for fields, slice for elements); nil = whole
	call       *ast.CallExpr
	mod        SExpr
	fc         *FuncContract
	pc         *PkgContracts
	names      map[string]ast.Expr
}

func (fv *FV) loopSpec(ord int) *LoopSpec {
	if fv.fc == nil {
		return nil
	}
	return fv.fc.Loops[ord]
}

func (fv *FV) checkInvariants(st *State, ls *LoopSpec, ord int, phase string, pos token.Pos, scopePos token.Pos) {
	if ls == nil {
		return
	}
	env := fv.localEnv(st, scopePos)
	for i, inv := range ls.Invariants {
		if !fv.tagOK(inv.Tags) {
			continue
		}
		lbl := inv.Label
		if lbl == "" {
			lbl = fmt.Sprint(i + 1)
		}
		parts := fv.splitConj(env, inv.Expr)
		for j, phi := range parts {
			name := fmt.Sprintf("loop%d.%s.%s", ord, phase, lbl)
			if len(parts) > 1 {
				name += fmt.Sprintf("/%d", j+1)
			}
			fv.oblige(st, name, phi, "loop invariant ("+phase+"): "+inv.Src, inv.Tags, pos)
		}
	}
}

func (fv *FV) assumeInvariants(st *State, ls *LoopSpec, scopePos token.Pos) {
	if ls == nil {
		return
	}
	env := fv.localEnv(st, scopePos)
	for _, inv := range ls.Invariants {
		if fv.tagOK(inv.Tags) {
			fv.assume(st, fv.specBool(env, inv.Expr))
		}
	}
}

func (fv *FV) execFor(st *State, x *ast.ForStmt, label string) *State {
	if x.Init != nil {
		st = fv.execStmt(st, x.Init, "")
	}
	ord := fv.loopOrd[x]
	ls := fv.loopSpec(ord)
	scopePos := x.Body.Lbrace + 1
	var nodes []ast.Node
	nodes = append(nodes, x.Body)
	if x.Post != nil {
		nodes = append(nodes, x.Post)
	}
	if x.Cond != nil {
		nodes = append(nodes, x.Cond)
	}
	head := fv.loopHead(st, ls, ord, x.Pos(), scopePos, nodes, x.Body)
	// variant
	var variant0 string
	if ls != nil && ls.Decreases != nil {
		variant0 = fv.spec(fv.localEnv(head, scopePos), ls.Decreases).S
	}
	cond := "true"
	if x.Cond != nil {
		cond = fv.evalCond(head, x.Cond)
	}
	body := fv.fork(head, cond)
	exit := fv.fork(head, not(cond))
	lc := &loopCtx{label: label}
	fv.ctx = append(fv.ctx, lc)
	fv.ghostAt(body, fmt.Sprintf("loop %d head", ord), x.Body.Lbrace+1)
	end := fv.execBlock(body, x.Body.List)
	fv.ctx = fv.ctx[:len(fv.ctx)-1]
	// every way of reaching the end of an iteration (falling off the body, each `continue`) is checked on its own:
	// merging them first only hands the solver a case split it has to undo
	for k, end := range append([]*State{end}, lc.continues...) {
		if end == nil {
			continue
		}
		phase := "preserve"
		if k > 0 {
			phase = fmt.Sprintf("preserve@continue%d", k)
		}
		if x.Post != nil {
			end = fv.execStmt(end, x.Post, "")
		}
		fv.ghostAt(end, fmt.Sprintf("loop %d end", ord), x.Body.Lbrace+1)
		fv.obligeSat(end, fmt.Sprintf("vacuity.loop%d.%s", ord, phase), "the end of the loop body is reachable under everything assumed on the way")
		fv.checkInvariants(end, ls, ord, phase, x.Pos(), scopePos)
		if variant0 != "" {
			v1 := fv.spec(fv.localEnv(end, scopePos), ls.Decreases).S
			name := fmt.Sprintf("loop%d.decreases", ord)
			if k > 0 {
				name += fmt.Sprintf("@continue%d", k)
			}
			fv.oblige(end, name, and(app("<", v1, variant0), app(">=", variant0, "0")), "loop variant decreases and is bounded below: "+ls.DecSrc, nil, x.Pos())
		}
	}
	after := fv.merge(append([]*State{exit}, lc.breaks...)...)
	fv.ghostAt(after, fmt.Sprintf("loop %d exit", ord), x.Pos())
	return after
}

// loopHead checks the invariants on entry, havocs what the loop may change and assumes the invariants.
func (fv *FV) loopHead(st *State, ls *LoopSpec, ord int, pos, scopePos token.Pos, nodes []ast.Node, body *ast.BlockStmt) *State {
	fv.checkInvariants(st, ls, ord, "entry", pos, scopePos)
	eff := fv.effects(st, nodes, body)
	head := st.clone()
	// locals
	var objs []types.Object
	for o := range eff.locals {
		if _, live := head.vars[o]; live {
			objs = append(objs, o)
		}
	}
	sort.Slice(objs, func(i, j int) bool { return objs[i].Pos() < objs[j].Pos() })
	for _, o := range objs {
		cur := head.vars[o]
		n := Term{S: fv.fresh(o.Name(), cur.Sort), Sort: cur.Sort, T: cur.T}
		head.vars[o] = n
		fv.assumeWF(head, n)
	}
	if eff.allocs {
		fv.havocAlloc(head)
	}
	// heap
	fv.applyEffects(st, head, eff)
	// ghost locals assigned by ghost statements in the loop
	for name := range fv.ghostAssignedIn(ord) {
		if cur, ok := head.ghost[name]; ok {
			head.ghost[name] = Term{S: fv.fresh(name, cur.Sort), Sort: cur.Sort, T: cur.T}
		}
	}
	if fv.pendingIt != "" {
		// a counted loop (yield loop): the iteration counter is arbitrary at the head
		it := Term{S: fv.fresh(fv.pendingIt, sInt), Sort: sInt, T: types.Typ[types.Int]}
		head.ghost[fv.pendingIt] = it
		fv.pendingItTerm = it
		if fv.pendingItBound != "" {
			fv.assume(head, and(app("<=", "0", it.S), app("<=", it.S, fv.pendingItBound)))
		}
		fv.pendingIt = ""
	}
	fv.assumeInvariants(head, ls, scopePos)
	if ls != nil && len(ls.Invariants) > 0 {
		fv.obligeSat(head, fmt.Sprintf("vacuity.loop%d", ord), "the loop invariants are satisfiable")
	}
	return head
}

func (fv *FV) execRange(st *State, x *ast.RangeStmt, label string) *State {
	ord := fv.loopOrd[x]
	ls := fv.loopSpec(ord)
	scopePos := x.Body.Lbrace + 1
	rt := fv.typeOf(x.X)
	itName := fmt.Sprintf("it%d", ord)
	var keyObj, valObj types.Object
	if id, ok := x.Key.(*ast.Ident); ok && id.Name != "_" {
		if x.Tok == token.DEFINE {
			keyObj = fv.info.Defs[id]
		} else {
			keyObj = fv.info.ObjectOf(id)
		}
	}
	if id, ok := x.Value.(*ast.Ident); ok && id.Name != "_" {
		if x.Tok == token.DEFINE {
			valObj = fv.info.Defs[id]
		} else {
			valObj = fv.info.ObjectOf(id)
		}
	}
	if x.Key != nil && keyObj == nil {
		if id, ok := x.Key.(*ast.Ident); !ok || id.Name != "_" {
			fv.fail(x.Pos(), "unsupported range key")
		}
	}
	switch ut := rt.Underlying().(type) {
	case *types.Map:
		return fv.execRangeMap(st, x, label, ord, ls, keyObj, valObj, ut)
	case *types.Signature:
		return fv.execRangeFunc(st, x, label, ord, ls, keyObj, valObj)
	}
	var n string
	var seq Term
	isInt := false
	if b, ok := rt.Underlying().(*types.Basic); ok && b.Info()&types.IsInteger != 0 {
		isInt = true
		n = fv.toInt(fv.evalExpr(st, x.X)).S
	} else if elemType(rt) != nil {
		seq = fv.evalExpr(st, x.X)
		seq = fv.nameTerm(st, "rng", seq)
		n = "(slen " + seq.S + ")"
	} else if b, ok := rt.Underlying().(*types.Basic); ok && b.Kind() == types.String {
		fv.fail(x.Pos(), "range over string")
	} else {
		fv.fail(x.Pos(), "unsupported range over %s", rt)
	}
	n = fv.nameTerm(st, "rn", Term{S: n, Sort: sInt}).S
	st.ghost[itName] = Term{S: "0", Sort: sInt, T: types.Typ[types.Int]}
	if keyObj != nil {
		st.vars[keyObj] = Term{S: "0", Sort: sInt, T: types.Typ[types.Int]}
	}
	if valObj != nil {
		st.vars[valObj] = fv.zero(valObj.Type())
	}
	// auto invariant on the counter
	auto := &Clause{Label: "counter", Src: "0 <= it && it <= max(n, 0)"}
	nodes := []ast.Node{x.Body}
	// entry check of user invariants with it = 0
	fv.checkInvariants(st, ls, ord, "entry", x.Pos(), scopePos)
	eff := fv.effects(st, nodes, x.Body)
	head := st.clone()
	var objs []types.Object
	for o := range eff.locals {
		if _, live := head.vars[o]; live && o != keyObj && o != valObj {
			objs = append(objs, o)
		}
	}
	sort.Slice(objs, func(i, j int) bool { return objs[i].Pos() < objs[j].Pos() })
	for _, o := range objs {
		cur := head.vars[o]
		nv := Term{S: fv.fresh(o.Name(), cur.Sort), Sort: cur.Sort, T: cur.T}
		head.vars[o] = nv
		fv.assumeWF(head, nv)
	}
	if eff.allocs {
		fv.havocAlloc(head)
	}
	fv.applyEffects(st, head, eff)
	for name := range fv.ghostAssignedIn(ord) {
		if cur, ok := head.ghost[name]; ok {
			head.ghost[name] = Term{S: fv.fresh(name, cur.Sort), Sort: cur.Sort, T: cur.T}
		}
	}
	it := Term{S: fv.fresh(itName, sInt), Sort: sInt, T: types.Typ[types.Int]}
	head.ghost[itName] = it
	if keyObj != nil {
		head.vars[keyObj] = it
	}
	_ = auto
	fv.assume(head, and(app("<=", "0", it.S), or(app("<=", it.S, n), eq(it.S, "0"))))
	fv.assumeInvariants(head, ls, scopePos)
	if ls != nil && len(ls.Invariants) > 0 {
		fv.obligeSat(head, fmt.Sprintf("vacuity.loop%d", ord), "the loop invariants are satisfiable")
	}
	cond := app("<", it.S, n)
	body := fv.fork(head, cond)
	exit := fv.fork(head, not(cond))
	if !isInt && valObj != nil {
		body.vars[valObj] = fv.indexTerm(body, seq, it)
		body.vars[valObj] = fv.nameTerm(body, valObj.Name(), body.vars[valObj])
	}
	lc := &loopCtx{label: label}
	fv.ctx = append(fv.ctx, lc)
	fv.ghostAt(body, fmt.Sprintf("loop %d head", ord), x.Body.Lbrace+1)
	end := fv.execBlock(body, x.Body.List)
	fv.ctx = fv.ctx[:len(fv.ctx)-1]
	for k, end := range append([]*State{end}, lc.continues...) {
		if end == nil {
			continue
		}
		phase := "preserve"
		if k > 0 {
			phase = fmt.Sprintf("preserve@continue%d", k)
		}
		next := Term{S: app("+", it.S, "1"), Sort: sInt, T: types.Typ[types.Int]}
		end.ghost[itName] = next
		if keyObj != nil {
			end.vars[keyObj] = next
		}
		fv.ghostAt(end, fmt.Sprintf("loop %d end", ord), x.Body.Lbrace+1)
		fv.obligeSat(end, fmt.Sprintf("vacuity.loop%d.%s", ord, phase), "the end of the loop body is reachable under everything assumed on the way")
		fv.checkInvariants(end, ls, ord, phase, x.Pos(), scopePos)
	}
	// after the loop the range variables are out of scope
	if exit != nil {
		exit.ghost[itName] = it
	}
	after := fv.merge(append([]*State{exit}, lc.breaks...)...)
	fv.ghostAt(after, fmt.Sprintf("loop %d exit", ord), x.Pos())
	return after
}

// effects computes, syntactically, what a loop body may change.
func (fv *FV) effects(st *State, nodes []ast.Node, body *ast.BlockStmt) *loopEffects {
	eff := &loopEffects{locals: map[types.Object]bool{}, comps: map[string]bool{}, body: body}
	addLocal := func(e ast.Expr, define bool) {
		id, ok := ast.Unparen(e).(*ast.Ident)
		if !ok || id.Name == "_" {
			return
		}
		if define {
			if fv.info.Defs[id] != nil {
				return // new variable
			}
		}
		if o := fv.info.ObjectOf(id); o != nil {
			eff.locals[o] = true
		}
	}
	var lhsWrite func(e ast.Expr)
	lhsWrite = func(e ast.Expr) {
		switch y := ast.Unparen(e).(type) {
		case *ast.Ident:
		case *ast.IndexExpr:
			t := fv.typeOf(y.X)
			if mt, ok := underMap(t); ok {
				for _, k := range fv.mapKeys(mt) {
					eff.comps[k] = true
					eff.targets = append(eff.targets, effTarget{key: k, base: y.X})
				}
				return
			}
			if et := elemType(t); et != nil {
				key, _ := fv.elemComp(et)
				eff.comps[key] = true
				eff.targets = append(eff.targets, effTarget{key: key, base: y.X})
			}
		case *ast.SelectorExpr:
			if sel := fv.info.Selections[y]; sel != nil && sel.Kind() == types.FieldVal {
				bt := fv.typeOf(y.X)
				if pt, ok := bt.Underlying().(*types.Pointer); ok {
					named, sty := structOf(pt.Elem())
					if f := findField(sty, y.Sel.Name); f != nil {
						key, _ := fv.fieldComp(named, f)
						eff.comps[key] = true
						eff.targets = append(eff.targets, effTarget{key: key, base: y.X})
					}
				} else {
					// field of a struct-valued local
					lhsLocal := y.X
					addLocal(lhsLocal, false)
				}
			}
		case *ast.StarExpr:
			t := fv.typeOf(y.X)
			// *v where v := (*uint64)(unsafe.Pointer(&X[i])) or v := &X[i] in the same loop: a write into X's window
			if id, ok := ast.Unparen(y.X).(*ast.Ident); ok {
				if src := fv.pointerSource(nodes, fv.info.ObjectOf(id)); src != nil {
					if et := elemType(fv.typeOf(src)); et != nil {
						key, _ := fv.elemComp(et)
						eff.comps[key] = true
						eff.targets = append(eff.targets, effTarget{key: key, base: src})
						return
					}
				}
			}
			if pt, ok := t.Underlying().(*types.Pointer); ok {
				if named, sty := structOf(pt.Elem()); sty != nil && named != nil {
					for i := 0; i < sty.NumFields(); i++ {
						key, _ := fv.fieldComp(named, sty.Field(i))
						eff.comps[key] = true
						eff.targets = append(eff.targets, effTarget{key: key, base: y.X})
					}
				} else {
					key := "P:" + fv.sortOf(pt.Elem())
					fv.compSort[key] = arr(sInt, fv.sortOf(pt.Elem()))
					eff.comps[key] = true
					eff.targets = append(eff.targets, effTarget{key: key})
				}
			}
		}
	}
	var inspect func(n ast.Node) bool
	inspect = func(n ast.Node) bool {
		switch y := n.(type) {
		case *ast.FuncLit:
			return false
		case *ast.AssignStmt:
			for _, l := range y.Lhs {
				addLocal(l, y.Tok == token.DEFINE)
				lhsWrite(l)
			}
		case *ast.IncDecStmt:
			addLocal(y.X, false)
			lhsWrite(y.X)
		case *ast.RangeStmt:
			if y.Tok == token.ASSIGN {
				if y.Key != nil {
					addLocal(y.Key, false)
				}
				if y.Value != nil {
					addLocal(y.Value, false)
				}
			}
		case *ast.CallExpr:
			if id, ok := ast.Unparen(y.Fun).(*ast.Ident); ok {
				if cl := fv.closures[fv.info.ObjectOf(id)]; cl != nil && cl.inlined {
					// a local closure that is inlined at its calls: its body's effects happen here
					ast.Inspect(cl.lit.Body, inspect)
					return true
				}
			}
			fv.callEffects(eff, y)
		}
		return true
	}
	for _, nd := range nodes {
		ast.Inspect(nd, inspect)
	}
	// variables declared inside the body are not live at the head
	for o := range eff.locals {
		if body != nil && o.Pos() >= body.Lbrace && o.Pos() <= body.Rbrace {
			delete(eff.locals, o)
		}
	}
	return eff
}

func (fv *FV) callEffects(eff *loopEffects, c *ast.CallExpr) {
	if tv, ok := fv.info.Types[c.Fun]; ok && tv.IsType() {
		return
	}
	fun := ast.Unparen(c.Fun)
	if id, ok := fun.(*ast.Ident); ok {
		if b, ok := fv.info.ObjectOf(id).(*types.Builtin); ok {
			switch b.Name() {
			case "append":
				if et := elemType(fv.typeOf(c)); et != nil {
					key, _ := fv.elemComp(et)
					eff.comps[key] = true
					eff.targets = append(eff.targets, effTarget{key: key, base: c.Args[0], wholeArray: true})
					eff.allocs = true
				}
			case "copy":
				if et := elemType(fv.typeOf(c.Args[0])); et != nil {
					key, _ := fv.elemComp(et)
					eff.comps[key] = true
					eff.targets = append(eff.targets, effTarget{key: key, base: c.Args[0]})
				}
			case "make", "new":
				eff.allocs = true
			case "delete", "clear":
				if mt, ok := underMap(fv.typeOf(c.Args[0])); ok {
					for _, k := range fv.mapKeys(mt) {
						eff.comps[k] = true
						eff.targets = append(eff.targets, effTarget{key: k, base: c.Args[0]})
					}
				}
			}
			return
		}
	}
	// static callee with a contract
	var callee *types.Func
	var recvExpr ast.Expr
	switch f := fun.(type) {
	case *ast.Ident:
		callee, _ = fv.info.ObjectOf(f).(*types.Func)
	case *ast.IndexExpr:
		if id, ok := f.X.(*ast.Ident); ok {
			callee, _ = fv.info.ObjectOf(id).(*types.Func)
		}
	case *ast.SelectorExpr:
		if sel := fv.info.Selections[f]; sel != nil {
			if sel.Kind() == types.MethodVal {
				callee, _ = sel.Obj().(*types.Func)
				recvExpr = f.X
			}
		} else {
			callee, _ = fv.info.ObjectOf(f.Sel).(*types.Func)
		}
	}
	if callee == nil {
		if id, ok := fun.(*ast.Ident); ok {
			if cands := fv.funcCands[fv.info.ObjectOf(id)]; len(cands) > 0 {
				// a local that only ever holds known functions: the union of their effects
				for _, cand := range cands {
					fv.staticCallEffects(eff, cand.fn, cand.recvArg(c), cand.args(c), c)
				}
				return
			}
		}
	}
	if callee != nil {
		fv.staticCallEffects(eff, callee, recvExpr, c.Args, c)
		return
	}
	// function value: role effects
	role := ""
	switch f := fun.(type) {
	case *ast.SelectorExpr:
		if sel := fv.info.Selections[f]; sel != nil && sel.Kind() == types.FieldVal {
			t := fv.typeOf(f.X)
			if p, ok := t.Underlying().(*types.Pointer); ok {
				t = p.Elem()
			}
			if named, _ := structOf(t); named != nil {
				if pc := fv.w.contracts[pkgPathOf(named.Obj())]; pc != nil {
					role = pc.FieldRole[named.Obj().Name()+"."+f.Sel.Name]
				}
			}
		}
	case *ast.Ident:
		if fv.fc != nil {
			role = fv.fc.Roles[f.Name]
		}
		if role == "" {
			role = fv.localRoles[fv.info.ObjectOf(f)]
		}
		if cl := fv.closures[fv.info.ObjectOf(f)]; cl != nil {
			// effects of the closure body
			sub := fv.effects(nil, []ast.Node{cl.lit.Body}, cl.lit.Body)
			for o := range sub.locals {
				eff.locals[o] = true
			}
			for k := range sub.comps {
				eff.comps[k] = true
			}
			eff.targets = append(eff.targets, sub.targets...)
			eff.allocs = eff.allocs || sub.allocs
			return
		}
	}
	rf := strings.Fields(role)
	if len(rf) == 0 {
		return
	}
	switch rf[0] {
	case "yield":
		if len(c.Args) == 1 {
			at := fv.typeOf(c.Args[0])
			for _, k := range []string{fv.callsComp("len", ""), fv.callsComp("ret", ""), fv.callsComp("arg", fv.sortOf(at))} {
				eff.comps[k] = true
				eff.targets = append(eff.targets, effTarget{key: k})
			}
		}
	case "report":
		for _, k := range fv.reportComps(rf) {
			eff.comps[k] = true
			eff.targets = append(eff.targets, effTarget{key: k})
		}
	case "trace":
		for _, k := range fv.traceComps(rf) {
			eff.comps[k] = true
			eff.targets = append(eff.targets, effTarget{key: k})
		}
	}
}

// applyEffects havocs heap components for a loop head. pre is the state before the loop (for evaluating
// loop-invariant references), head the state being built.
func (fv *FV) applyEffects(pre, head *State, eff *loopEffects) {
	// first pass: component keys of call effects (needed for the invariance test)
	type resolved struct {
		key    string
		ref    string
		lo, hi string
		ok     bool // targeted
	}
	var res []resolved
	invariantExpr := func(e ast.Expr) bool {
		inv := true
		ast.Inspect(e, func(n ast.Node) bool {
			switch y := n.(type) {
			case *ast.Ident:
				if o := fv.info.ObjectOf(y); o != nil && eff.locals[o] {
					inv = false
				} else if o != nil && eff.body != nil && o.Pos() >= eff.body.Lbrace && o.Pos() <= eff.body.Rbrace {
					inv = false // declared inside the body: no value at the loop head
				}
			case *ast.SelectorExpr:
				if sel := fv.info.Selections[y]; sel != nil && sel.Kind() == types.FieldVal {
					bt := fv.typeOf(y.X)
					if pt, ok := bt.Underlying().(*types.Pointer); ok {
						named, sty := structOf(pt.Elem())
						if f := findField(sty, y.Sel.Name); f != nil {
							key, _ := fv.fieldComp(named, f)
							if eff.comps[key] {
								inv = false
							}
						}
					}
				}
			case *ast.CallExpr, *ast.IndexExpr:
				if _, isCall := n.(*ast.CallExpr); isCall {
					inv = false
				}
			}
			return true
		})
		return inv
	}
	// resolve call-based targets to component keys first so that eff.comps is complete
	quiet := func(f func()) {
		saveObl, saveFacts := len(fv.obls), len(fv.facts)
		names := map[string]int{}
		for k, v := range fv.oblNames {
			names[k] = v
		}
		f()
		fv.obls = fv.obls[:saveObl]
		_ = saveFacts
		fv.oblNames = names
	}
	type callT struct {
		t    effTarget
		mts  []modTarget
		invt bool
	}
	var calls []callT
	for _, t := range eff.targets {
		if t.call == nil {
			continue
		}
		ct := callT{t: t, invt: true}
		scratch := pre.clone()
		usedNames := map[string]bool{}
		for _, n := range specIdentNames(t.mod) {
			usedNames[n] = true
		}
		quiet(func() {
			env := &Env{fv: fv, st: scratch, names: map[string]Term{}, pc: t.pc}
			for n, e := range t.names {
				if n == "" || n == "_" {
					continue
				}
				v, ok := fv.tryEval(scratch, e)
				if !ok {
					// refers to variables that exist only inside the body: not loop-invariant
					if usedNames[n] {
						ct.invt = false
					}
					ty := fv.typeOf(e)
					so := fv.sortOf(ty)
					v = Term{S: fv.fresh("unk", so), Sort: so, T: ty}
				}
				env.names[n] = v
			}
			ct.mts = fv.modTarget(env, t.mod)
		})
		for _, m := range ct.mts {
			eff.comps[m.key] = true
		}
		calls = append(calls, ct)
	}
	for _, t := range eff.targets {
		if t.call != nil {
			continue
		}
		if t.base == nil || !invariantExpr(t.base) {
			res = append(res, resolved{key: t.key})
			continue
		}
		var ref, lo, hi string
		scratch := pre.clone()
		quiet(func() {
			v := fv.evalExpr(scratch, t.base)
			switch {
			case v.Sort == sSlice:
				ref = "(sbase " + v.S + ")"
				if !t.wholeArray {
					lo, hi = "(soff "+v.S+")", "(+ (soff "+v.S+") (slen "+v.S+"))"
				}
			default:
				ref = v.S
			}
		})
		res = append(res, resolved{key: t.key, ref: ref, lo: lo, hi: hi, ok: true})
	}
	for _, ct := range calls {
		inv := ct.invt
		used := map[string]bool{}
		for _, n := range specIdentNames(ct.t.mod) {
			used[n] = true
		}
		for n, e := range ct.t.names {
			if used[n] && !invariantExpr(e) {
				inv = false
			}
		}
		// fields read by the modifies expression must not be written in the loop
		pathExpr := ct.t.mod
		if sf, ok := pathExpr.(*SField); ok {
			pathExpr = sf.X // the modified field itself is not read to find the location
		}
		for _, fn := range specFieldNames(pathExpr) {
			for k := range eff.comps {
				if strings.HasPrefix(k, "F:") && strings.HasSuffix(strings.SplitN(k, "$", 2)[0], "."+fn) {
					inv = false
				}
			}
		}
		for _, m := range ct.mts {
			if inv && m.ref != "" {
				res = append(res, resolved{key: m.key, ref: m.ref, lo: m.lo, hi: m.hi, ok: true})
			} else {
				res = append(res, resolved{key: m.key})
			}
		}
	}
	// apply: whole-component havoc wins
	whole := map[string]bool{}
	for _, r := range res {
		if !r.ok {
			whole[r.key] = true
		}
	}
	done := map[string]bool{}
	var targets []modTarget
	for _, r := range res {
		if whole[r.key] {
			if !done[r.key] {
				done[r.key] = true
				targets = append(targets, modTarget{key: r.key})
			}
			continue
		}
		id := r.key + "\x00" + r.ref + "\x00" + r.lo + "\x00" + r.hi
		if !done[id] {
			done[id] = true
			targets = append(targets, modTarget{key: r.key, ref: r.ref, lo: r.lo, hi: r.hi})
		}
	}
	fv.havoc(head, targets)
}

// tryEval evaluates an expression, reporting failure instead of aborting the function.
func (fv *FV) tryEval(st *State, e ast.Expr) (t Term, ok bool) {
	defer func() {
		if r := recover(); r != nil {
			if _, isU := r.(unsupported); isU {
				ok = false
				return
			}
			panic(r)
		}
	}()
	return fv.evalExpr(st, e), true
}

func specIdentNames(e SExpr) []string {
	var out []string
	var walk func(e SExpr)
	walk = func(e SExpr) {
		switch x := e.(type) {
		case *SIdent:
			out = append(out, x.Name)
		case *SField:
			walk(x.X)
		case *SCall:
			for _, a := range x.Args {
				walk(a)
			}
		case *SIndex:
			walk(x.X)
			walk(x.I)
		case *SBin:
			walk(x.L)
			walk(x.R)
		case *SUn:
			walk(x.X)
		}
	}
	walk(e)
	return out
}

func specFieldNames(e SExpr) []string {
	var out []string
	var walk func(e SExpr)
	walk = func(e SExpr) {
		switch x := e.(type) {
		case *SField:
			out = append(out, x.Name)
			walk(x.X)
		case *SCall:
			for _, a := range x.Args {
				walk(a)
			}
		case *SIndex:
			walk(x.X)
			walk(x.I)
		case *SBin:
			walk(x.L)
			walk(x.R)
		}
	}
	walk(e)
	return out
}

// emitAxioms: `axiom` directives of the package's contracts (and of imported contract files) become global facts;
// each is listed among the assumptions.
func (fv *FV) emitAxioms(st *State) {
	seen := map[*PkgContracts]bool{}
	var walk func(pc *PkgContracts)
	walk = func(pc *PkgContracts) {
		if pc == nil || seen[pc] {
			return
		}
		seen[pc] = true
		for _, ax := range pc.Axioms {
			env := &Env{fv: fv, st: st, names: map[string]Term{}, pc: pc}
			var phi string
			func() {
				defer func() {
					if r := recover(); r != nil {
						if _, ok := r.(unsupported); ok {
							phi = ""
							return
						}
						panic(r)
					}
				}()
				phi = fv.specBool(env, ax.Expr)
			}()
			if phi != "" {
				fv.axioms = append(fv.axioms, phi)
				fv.assumptions["axiom "+ax.Name+" ("+shortPkg(pc.Path)+"): "+strings.TrimSpace(ax.Src)] = true
			}
		}
		for _, imp := range pc.Imports {
			walk(fv.w.contracts[imp])
			walk(fv.w.libc[imp])
		}
	}
	walk(fv.pc)
}

// pointerSource finds, for a pointer variable defined inside the given nodes as &X[i] (possibly through
// unsafe.Pointer conversions), the slice expression X.
func (fv *FV) pointerSource(nodes []ast.Node, obj types.Object) ast.Expr {
	var found ast.Expr
	strip := func(e ast.Expr) ast.Expr {
		for {
			e = ast.Unparen(e)
			c, ok := e.(*ast.CallExpr)
			if !ok || len(c.Args) != 1 {
				return e
			}
			if tv, ok := fv.info.Types[c.Fun]; !ok || !tv.IsType() {
				return e
			}
			e = c.Args[0]
		}
	}
	for _, nd := range nodes {
		ast.Inspect(nd, func(n ast.Node) bool {
			as, ok := n.(*ast.AssignStmt)
			if !ok || len(as.Lhs) != len(as.Rhs) {
				return true
			}
			for i, l := range as.Lhs {
				id, ok := l.(*ast.Ident)
				if !ok || fv.info.ObjectOf(id) != obj {
					continue
				}
				if u, ok := strip(as.Rhs[i]).(*ast.UnaryExpr); ok && u.Op == token.AND {
					if ix, ok := ast.Unparen(u.X).(*ast.IndexExpr); ok {
						found = ix.X
					}
				}
			}
			return true
		})
	}
	return found
}

// staticCallEffects adds the effects of a call to a known function (its `modifies` clauses, renamed to the call's
// receiver and argument expressions).
func (fv *FV) staticCallEffects(eff *loopEffects, callee *types.Func, recvExpr ast.Expr, args []ast.Expr, c *ast.CallExpr) {
	fi := fv.w.lookupFunc(callee)
	var fc *FuncContract
	var pc *PkgContracts
	if fi != nil {
		fc, pc = fi.Contract, fi.PC
	} else {
		fc, pc = fv.w.libContract(callee)
	}
	if fc == nil {
		if fv.ifaceCallEffects(eff, callee, recvExpr, c) {
			return
		}
		return // reported when the call is executed
	}
	if !fc.Pure {
		eff.allocs = true
	}
	osig := callee.Origin().Type().(*types.Signature)
	if recvExpr != nil && osig.Recv() != nil {
		if _, wantPtr := osig.Recv().Type().(*types.Pointer); wantPtr {
			if id, ok := ast.Unparen(recvExpr).(*ast.Ident); ok {
				if _, isPtr := fv.typeOf(recvExpr).Underlying().(*types.Pointer); !isPtr && !isUserByRef(fv.typeOf(recvExpr)) {
					if o := fv.info.ObjectOf(id); o != nil {
						eff.locals[o] = true // boxed and written back by the call
					}
				}
			}
		}
	}
	names := map[string]ast.Expr{}
	if recvExpr != nil && osig.Recv() != nil {
		names[osig.Recv().Name()] = recvExpr
		names["self"] = recvExpr
	}
	for i := 0; i < osig.Params().Len() && i < len(args); i++ {
		names[osig.Params().At(i).Name()] = args[i]
	}
	for _, m := range fc.Modifies {
		eff.targets = append(eff.targets, effTarget{call: c, mod: m, fc: fc, pc: pc, names: names})
	}
	return
}
