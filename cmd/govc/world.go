package main

// Loading /repo with the verif tag, contract discovery, function index.

import (
	"fmt"
	"go/ast"
	"go/token"
	"go/types"
	"os"
	"path/filepath"
	"sort"
	"strings"

	"golang.org/x/tools/go/packages"
)

const modPath = "github.com/creachadair/mds"

var repoDir = "/repo"
var verifDir = "/verif"

// GOVC_REPO and GOVC_OUT redirect the tree under verification and the evidence/replay output; the self-test uses
// them to run checks against a scratch worktree carrying a seeded change without touching /repo or /verif/evidence.
func init() {
	if d := os.Getenv("GOVC_REPO"); d != "" {
		repoDir = d
	}
	// GOVC_CONTRACTS: read contracts/ (and contracts/lib) from a scratch copy while drafting a contract, so that a
	// check running at the same time keeps seeing the committed files. Never set by a registered command.
	if d := os.Getenv("GOVC_CONTRACTS"); d != "" {
		verifDir = d
	}
}

func outDir() string {
	if d := os.Getenv("GOVC_OUT"); d != "" {
		return d
	}
	return verifDir
}

type FuncInfo struct {
	Obj      *types.Func
	Decl     *ast.FuncDecl
	Pkg      *packages.Package
	Contract *FuncContract
	Key      string // "Recv.Name" or "Name"
	PC       *PkgContracts
}

func (fi *FuncInfo) FullName() string { return shortPkg(fi.Pkg.PkgPath) + "." + fi.Key }

func shortPkg(path string) string {
	if strings.HasPrefix(path, modPath+"/") {
		return path[len(modPath)+1:]
	}
	return path
}

type World struct {
	fset      *token.FileSet
	pkgs      map[string]*packages.Package
	contracts map[string]*PkgContracts
	funcs     map[*types.Func]*FuncInfo
	byName    map[string]*FuncInfo // "pkg.Recv.Name"
	libc      map[string]*PkgContracts
	notes     []string
	intact    map[string]string // pkg → "" ok, or problem text
	allTypes  map[string]*types.Package // every package seen while loading (standard library included)
}

func recvTypeName(fd *ast.FuncDecl) string {
	if fd.Recv == nil || len(fd.Recv.List) == 0 {
		return ""
	}
	t := fd.Recv.List[0].Type
	for {
		switch x := t.(type) {
		case *ast.StarExpr:
			t = x.X
		case *ast.IndexExpr:
			t = x.X
		case *ast.IndexListExpr:
			t = x.X
		case *ast.ParenExpr:
			t = x.X
		case *ast.Ident:
			return x.Name
		default:
			return ""
		}
	}
}

func funcKey(fd *ast.FuncDecl) string {
	if r := recvTypeName(fd); r != "" {
		return r + "." + fd.Name.Name
	}
	return fd.Name.Name
}

const contractFileName = "zz_contracts_verif.go"

func loadWorld(pkgNames []string) (*World, error) {
	w := &World{pkgs: map[string]*packages.Package{}, contracts: map[string]*PkgContracts{}, funcs: map[*types.Func]*FuncInfo{}, byName: map[string]*FuncInfo{}, libc: map[string]*PkgContracts{}, intact: map[string]string{}}
	w.fset = token.NewFileSet()
	var pats []string
	for _, p := range pkgNames {
		pats = append(pats, "./"+p)
	}
	// contract files absent from /repo are supplied from the mirror through an overlay
	overlay := map[string][]byte{}
	mirrors, _ := filepath.Glob(filepath.Join(verifDir, "contracts", "*.go"))
	for _, m := range mirrors {
		pkg := strings.TrimSuffix(filepath.Base(m), ".go")
		dst := filepath.Join(repoDir, pkg, contractFileName)
		mb, _ := os.ReadFile(m)
		rb, err := os.ReadFile(dst)
		if err != nil {
			overlay[dst] = mb
			w.intact[pkg] = "absent from /repo; mirror supplied by overlay"
		} else if string(rb) != string(mb) {
			w.intact[pkg] = "contract file in /repo differs from the mirror in /verif/contracts"
			overlay[dst] = mb // the mirror is authoritative
		} else {
			w.intact[pkg] = ""
		}
	}
	cfg := &packages.Config{
		Mode:       packages.NeedName | packages.NeedSyntax | packages.NeedTypes | packages.NeedTypesInfo | packages.NeedFiles | packages.NeedImports | packages.NeedDeps,
		Dir:        repoDir,
		Fset:       w.fset,
		BuildFlags: []string{"-tags", "verif"},
		Overlay:    overlay,
		Env:        append(os.Environ(), "GOFLAGS=-mod=mod", "GOPROXY=off", "GOSUMDB=off", "GOTOOLCHAIN=local"),
	}
	pkgs, err := packages.Load(cfg, pats...)
	if err != nil {
		return nil, err
	}
	var visit func(p *packages.Package)
	visit = func(p *packages.Package) {
		if w.pkgs[p.PkgPath] != nil {
			return
		}
		w.pkgs[p.PkgPath] = p
		for _, ip := range p.Imports {
			if strings.HasPrefix(ip.PkgPath, modPath) {
				visit(ip)
			}
		}
	}
	w.allTypes = map[string]*types.Package{}
	var collect func(p *packages.Package)
	collect = func(p *packages.Package) {
		if p.Types == nil || w.allTypes[p.PkgPath] != nil {
			return
		}
		w.allTypes[p.PkgPath] = p.Types
		for _, ip := range p.Imports {
			collect(ip)
		}
	}
	for _, p := range pkgs {
		collect(p)
	}
	for _, p := range pkgs {
		if len(p.Errors) > 0 {
			return nil, fmt.Errorf("package %s does not compile: %v", p.PkgPath, p.Errors[0])
		}
		visit(p)
	}
	// contracts
	for path, p := range w.pkgs {
		sp := shortPkg(path)
		var text, file string
		mfile := filepath.Join(verifDir, "contracts", sp+".go")
		if b, err := os.ReadFile(mfile); err == nil {
			text, file = string(b), mfile
		} else {
			continue
		}
		pc, err := parseContractText(text, file, path)
		if err != nil {
			return nil, err
		}
		pc.Name = p.Name
		w.contracts[path] = pc
	}
	// library contracts
	libs, _ := filepath.Glob(filepath.Join(verifDir, "contracts", "lib", "*.spec"))
	for _, l := range libs {
		name := strings.TrimSuffix(filepath.Base(l), ".spec")
		name = strings.ReplaceAll(name, "_", "/")
		pc, err := parseContractFile(l, name)
		if err != nil {
			return nil, err
		}
		w.libc[name] = pc
	}
	// function index
	for path, p := range w.pkgs {
		pc := w.contracts[path]
		for _, f := range p.Syntax {
			if strings.HasSuffix(w.fset.Position(f.Pos()).Filename, "_test.go") {
				continue
			}
			for _, d := range f.Decls {
				fd, ok := d.(*ast.FuncDecl)
				if !ok {
					continue
				}
				obj, _ := p.TypesInfo.Defs[fd.Name].(*types.Func)
				if obj == nil {
					continue
				}
				fi := &FuncInfo{Obj: obj, Decl: fd, Pkg: p, Key: funcKey(fd), PC: pc}
				if pc != nil {
					fi.Contract = pc.Funcs[fi.Key]
				}
				w.funcs[obj] = fi
				w.byName[fi.FullName()] = fi
			}
		}
		if pc != nil {
			for k := range pc.Funcs {
				if w.byName[shortPkg(path)+"."+k] == nil {
					// a contract on a method of an interface declared in the package
					if dot := strings.Index(k, "."); dot > 0 {
						if tn, ok := p.Types.Scope().Lookup(k[:dot]).(*types.TypeName); ok {
							if _, isIface := tn.Type().Underlying().(*types.Interface); isIface {
								continue
							}
						}
					}
					return nil, fmt.Errorf("%s: contract for %s: no such function in package %s", pc.File, k, path)
				}
			}
		}
	}
	return w, nil
}

func (w *World) funcNames(pkg string) []string {
	var out []string
	for n, fi := range w.byName {
		if shortPkg(fi.Pkg.PkgPath) == pkg && fi.Contract != nil {
			out = append(out, n)
		}
	}
	sort.Strings(out)
	return out
}

// lookupFunc finds the FuncInfo for a called function object (generic origin).
func (w *World) lookupFunc(f *types.Func) *FuncInfo {
	if f == nil {
		return nil
	}
	if fi := w.funcs[f.Origin()]; fi != nil {
		return fi
	}
	return w.funcs[f]
}

// libContract finds an assumed contract for a library function, e.g. "slices.Reverse", or the contract of an
// interface method declared in a package under contract.
func (w *World) libContract(f *types.Func) (*FuncContract, *PkgContracts) {
	if f == nil || f.Pkg() == nil {
		return nil, nil
	}
	pc := w.libc[f.Pkg().Path()]
	if pc == nil {
		pc = w.contracts[f.Pkg().Path()]
	}
	if pc == nil {
		return nil, nil
	}
	key := f.Name()
	if sig, ok := f.Type().(*types.Signature); ok && sig.Recv() != nil {
		t := sig.Recv().Type()
		if p, ok := t.(*types.Pointer); ok {
			t = p.Elem()
		}
		if n, ok := t.(*types.Named); ok {
			key = n.Obj().Name() + "." + f.Name()
		}
	}
	return pc.Funcs[key], pc
}
