package main

// `govc check <property>`: discharge every obligation of a property, classify failures, write evidence.

import (
	"encoding/json"
	"flag"
	"fmt"
	"os"
	"os/exec"
	"path/filepath"
	"sort"
	"strconv"
	"strings"
	"time"
)

type PropSpec struct {
	ID        string   `json:"id"`
	Packages  []string `json:"packages"`
	Functions []string `json:"functions"` // optional: "pkg.Recv.Name"; default every function with a contract in Packages[0..]
	Own       []string `json:"own_packages"`
	Deps      []string `json:"deps"` // functions of other packages whose obligations are discharged as dependencies
	Bounded   []struct {
		Name    string `json:"name"`
		What    string `json:"what"`
		Pkg     string `json:"pkg"`
		Test    string `json:"test"`  // file under /verif/bounded/
		Run     string `json:"run"`   // test name regexp
		Quick   string `json:"quick"` // value of GOVC_BOUND
		Thorough string `json:"thorough"`
		Race     bool   `json:"race"` // run under the race detector (falls back to a plain run where it is unavailable)
	} `json:"bounded"`
	TrustedBase []string `json:"trusted_base"`
	NAClauses   []string `json:"na_clauses"`
	Level       string   `json:"level"`
	MinObl      int      `json:"min_obligations"`
}

func loadProp(id string) (*PropSpec, error) {
	b, err := os.ReadFile(filepath.Join(verifDir, "props", id+".json"))
	if err != nil {
		return nil, err
	}
	var p PropSpec
	if err := json.Unmarshal(b, &p); err != nil {
		return nil, fmt.Errorf("props/%s.json: %v", id, err)
	}
	return &p, nil
}

func hasTag(tags []string, id string) bool {
	if len(tags) == 0 {
		return true
	}
	for _, t := range tags {
		if t == id {
			return true
		}
	}
	return false
}

type violation struct {
	obl    string
	replay string
	noInput bool
	desc   string
}

func cmdCheck(args []string) int {
	fs := flag.NewFlagSet("check", flag.ExitOnError)
	tier := fs.String("tier", os.Getenv("VERIF_TIER"), "quick|thorough")
	fs.Parse(reorderArgs(args))
	if fs.NArg() < 1 {
		fmt.Fprintln(os.Stderr, "check <property> [--tier quick|thorough]")
		return 2
	}
	id := fs.Arg(0)
	if *tier == "" {
		*tier = "quick"
	}
	seed, _ := strconv.Atoi(os.Getenv("VERIF_SEED"))
	t0 := time.Now()
	prop, err := loadProp(id)
	if err != nil {
		fmt.Fprintln(os.Stderr, err)
		return 2
	}
	tmo := 20 * time.Second
	if *tier == "thorough" {
		tmo = 120 * time.Second
	}
	scratch, _ := os.MkdirTemp("", "govc")
	if d := os.Getenv("GOVC_KEEP"); d != "" { // debugging aid: keep every SMT file of the run
		os.MkdirAll(d, 0o755)
		scratch = d
	} else {
		defer os.RemoveAll(scratch)
	}
	replayDir := filepath.Join(outDir(), "replays", id)
	os.RemoveAll(replayDir)

	w, err := loadWorld(prop.Packages)
	var violations []violation
	var knownLines []string
	evid := map[string]interface{}{}
	cov := map[string]interface{}{}
	assumptions := map[string]bool{}
	if err != nil {
		// the tree does not load (does not compile, or a contract names a missing function)
		rp := writeReplay(replayDir, "load", map[string]interface{}{"property": id, "obligation": "load#compiles", "error": err.Error(), "status": "no-model"})
		violations = append(violations, violation{obl: "load#compiles", replay: rp, noInput: true, desc: err.Error()})
		return finish(id, *tier, seed, t0, prop, nil, violations, knownLines, evid, cov, assumptions, nil)
	}
	findings, ferr := loadFindings()
	if ferr != nil {
		fmt.Fprintln(os.Stderr, ferr)
		return 2
	}
	var mine []*Finding
	for _, f := range findings {
		if f.Kind == "finding" && f.Property == id {
			mine = append(mine, f)
		}
	}
	// functions
	var names []string
	if len(prop.Functions) > 0 {
		names = append(names, prop.Functions...)
	} else {
		own := prop.Own
		if len(own) == 0 {
			own = prop.Packages
		}
		for _, p := range own {
			names = append(names, w.funcNames(p)...)
		}
	}
	names = append(names, prop.Deps...)
	var results []*funcResult
	var all []*Obligation
	for _, n := range names {
		fi := w.byName[n]
		if fi == nil {
			o := &Obligation{Name: n + "#exists", Func: n, Kind: "exists", Desc: "function under contract no longer exists"}
			o.Result.Status = "error"
			all = append(all, o)
			continue
		}
		if fi.Contract != nil && fi.Contract.Trusted {
			continue
		}
		fv := newFV(w, fi)
		fv.findings = mine
		fv.prop = id
		tg := time.Now()
		err := fv.verify()
		fv.finalizeQueries()
		r := &funcResult{fi: fi, fv: fv, err: err, secs: time.Since(tg).Seconds()}
		results = append(results, r)
		if err != nil {
			o := &Obligation{Name: fi.FullName() + "#subset.unsupported", Func: fi.FullName(), Kind: "subset", Desc: "the function left the supported subset or its contract no longer applies: " + err.Error()}
			o.Result.Status = "error"
			o.Result.Output = err.Error()
			all = append(all, o)
			continue
		}
		for _, o := range fv.obls {
			if hasTag(o.Tags, id) {
				all = append(all, o)
			}
		}
		for a := range fv.assumptions {
			assumptions[a] = true
		}
	}
	// contract files intact
	for pkg, problem := range w.intact {
		inScope := false
		for _, p := range prop.Packages {
			if p == pkg {
				inScope = true
			}
		}
		if !inScope {
			continue
		}
		o := &Obligation{Name: pkg + "#contracts.intact", Func: pkg, Kind: "intact", Desc: "contract file in /repo is byte-identical to /verif/contracts/" + pkg + ".go"}
		if problem == "" {
			o.Result.Status = "unsat"
			o.Result.Solver = "cmp"
		} else if strings.HasPrefix(problem, "absent") {
			o.Result.Status = "unsat"
			o.Result.Solver = "cmp"
			assumptions["contract file for "+pkg+" "+problem] = true
		} else {
			o.Result.Status = "error"
			o.Result.Output = problem
		}
		all = append(all, o)
	}
	// solve
	var toSolve []*Obligation
	for _, o := range all {
		if o.Query != "" {
			toSolve = append(toSolve, o)
		}
	}
	solveAll(scratch, toSolve, tmo)
	// classify
	discharged := 0
	byBackend := map[string]map[string]float64{}
	samples := []interface{}{}
	unproved := []string{}
	cexTried := 0
	var maxSecs float64
	for _, o := range all {
		good := o.Result.Status == "unsat"
		if o.Vacuity {
			good = o.Result.Status == "sat" || o.Result.Status == "unknown" || o.Result.Status == "timeout"
			// a vacuity check is violated only by a proof of inconsistency
			if o.Result.Status == "unsat" {
				good = false
			}
		}
		if good {
			discharged++
			b := byBackend[o.Result.Solver]
			if b == nil {
				b = map[string]float64{}
				byBackend[o.Result.Solver] = b
			}
			b["count"]++
			b["seconds"] += o.Result.Seconds
			if o.Result.Seconds > b["max_seconds"] {
				b["max_seconds"] = o.Result.Seconds
			}
			if o.Result.Seconds > maxSecs {
				maxSecs = o.Result.Seconds
			}
			continue
		}
		// known finding?
		if o.Finding != nil && o.Finding.Property == id && o.Region != "" {
			rq := strings.Replace(o.CexQuery, "", "", 0)
			rr := solve(scratch, o.Name+".outside-region", rq, tmo, false)
			o.RegionResult = &rr
			if rr.Status == "unsat" {
				// fails only inside the known region: discharged outside it
				discharged++
				knownLines = append(knownLines, fmt.Sprintf("KNOWN-FINDING: property=%s obligation=%s region=%q %s", id, o.Name, o.Finding.Region, o.Finding.What))
				continue
			}
		}
		unproved = append(unproved, o.Name)
		info := map[string]interface{}{"property": id, "obligation": o.Name, "function": o.Func, "clause": o.Desc, "position": o.Pos, "solvers": o.Result.All, "status": "no-model"}
		if o.Result.Output != "" {
			info["solver_output"] = firstLines(o.Result.Output, 200)
		}
		v := violation{obl: o.Name, desc: o.Desc, noInput: true}
		// counterexample pipeline (for the first few violations: each attempt is an interactive solver session plus a
		// replay of the real code, and the verdict does not depend on how many of many violations get a witness)
		cexTried++
		if o.Query != "" && !o.Vacuity && cexTried <= 4 {
			var fvOf *FV
			for _, r := range results {
				if r.fi != nil && r.fi.FullName() == o.Func {
					fvOf = r.fv
				}
			}
			if fvOf != nil {
				if confirmed := counterexample(w, fvOf, o, scratch, info); confirmed {
					v.noInput = false
				}
			}
		}
		v.replay = writeReplay(replayDir, o.Name, info)
		violations = append(violations, v)
	}
	// bounded stand-ins
	bounded := []interface{}{}
	for _, b := range prop.Bounded {
		bound := b.Quick
		if *tier == "thorough" && b.Thorough != "" {
			bound = b.Thorough
		}
		ok, out, cases, secs := runBounded(b.Pkg, b.Test, b.Run, bound, seed, b.Race)
		rec := map[string]interface{}{"name": b.Name, "what": b.What, "bound": bound, "cases": cases, "seconds": secs, "label": "bounded (never counted as proved)", "passed": ok}
		if b.Race {
			rec["race_detector"] = "requested (go test -race; falls back to a plain run where the detector cannot be built)"
		}
		bounded = append(bounded, rec)
		if !ok {
			info := map[string]interface{}{"property": id, "obligation": b.Name + "#bounded", "clause": b.What, "bound": bound, "output": firstLines(out, 200), "status": "confirmed",
				"go_test_file": filepath.Join(verifDir, "bounded", b.Test), "run": b.Run, "pkg": b.Pkg}
			rp := writeReplay(replayDir, b.Name+"#bounded", info)
			violations = append(violations, violation{obl: b.Name + "#bounded", replay: rp, desc: b.What})
		}
	}
	// evidence
	sort.Slice(all, func(i, j int) bool { return all[i].Name < all[j].Name })
	for i, o := range all {
		if i%maxInt(1, len(all)/12) == 0 && len(samples) < 14 {
			samples = append(samples, map[string]interface{}{"obligation": o.Name, "clause": o.Desc, "result": o.Result.Status, "solver": o.Result.Solver, "seconds": round3(o.Result.Seconds), "smt_bytes": len(o.Query)})
		}
	}
	funcs := []interface{}{}
	for _, r := range results {
		n := 0
		for _, o := range r.fv.obls {
			if hasTag(o.Tags, id) {
				n++
			}
		}
		st := "proved"
		if r.err != nil {
			st = "outside reach: " + r.err.Error()
		}
		pos := w.fset.Position(r.fi.Decl.Pos())
		funcs = append(funcs, map[string]interface{}{"name": r.fi.FullName(), "file": shortFile(pos.Filename), "obligations": n, "status": st, "generation_seconds": round3(r.secs)})
	}
	// trusted (assumed) contracts used
	for _, n := range names {
		if fi := w.byName[n]; fi != nil && fi.Contract != nil && fi.Contract.Trusted {
			funcs = append(funcs, map[string]interface{}{"name": fi.FullName(), "status": "assumed (trusted contract): " + fi.Contract.TrustWhy})
		}
	}
	cov["obligations"] = len(all)
	cov["discharged"] = discharged
	cov["functions_under_contract"] = funcs
	cov["by_backend"] = byBackend
	cov["max_obligation_seconds"] = round3(maxSecs)
	cov["samples"] = samples
	cov["unproved"] = unproved
	cov["bounded_standins"] = bounded
	return finish(id, *tier, seed, t0, prop, all, violations, knownLines, evid, cov, assumptions, w)
}

func maxInt(a, b int) int {
	if a > b {
		return a
	}
	return b
}

func round3(f float64) float64 { return float64(int(f*1000+0.5)) / 1000 }

func reorderArgs(args []string) []string {
	var flags, rest []string
	for i := 0; i < len(args); i++ {
		if strings.HasPrefix(args[i], "-") {
			flags = append(flags, args[i])
			if !strings.Contains(args[i], "=") && i+1 < len(args) {
				flags = append(flags, args[i+1])
				i++
			}
		} else {
			rest = append(rest, args[i])
		}
	}
	return append(flags, rest...)
}

func writeReplay(dir, name string, info map[string]interface{}) string {
	os.MkdirAll(dir, 0o755)
	p := filepath.Join(dir, sanitize(name)+".json")
	b, _ := json.MarshalIndent(info, "", " ")
	os.WriteFile(p, b, 0o644)
	return p
}

func finish(id, tier string, seed int, t0 time.Time, prop *PropSpec, all []*Obligation, violations []violation, knownLines []string, evid, cov map[string]interface{}, assumptions map[string]bool, w *World) int {
	level := prop.Level
	if level == "" {
		level = "proof"
	}
	if _, ok := cov["obligations"]; !ok {
		cov["obligations"] = 0
		cov["discharged"] = 0
	}
	cov["checker_cmd"] = fmt.Sprintf("bin/govc check %s --tier %s  (VC generation over go/ast+go/types from /repo's working tree; z3-new 5.1.0 / z3 4.8.12 / cvc5 1.0.3 portfolio)", id, tier)
	tb := append([]string{}, prop.TrustedBase...)
	tb = append(tb, "govc VC generator and contract parser (/verif/cmd/govc)", "SMT solvers z3-new 5.1.0, z3 4.8.12, cvc5 1.0.3", "Go `int` treated as a mathematical integer (no overflow obligations)", "memory model: one SMT array per struct field, slices as (base, off, len, cap) over per-type element stores; append/copy/make as in the language specification")
	cov["trusted_base"] = tb
	cov["explanation"] = "contract-based deductive verification: every obligation generated from the current source of the functions under contract is discharged by an SMT solver; bounded stand-ins (if any) are listed separately and never counted as discharged"
	cov["na_clauses"] = prop.NAClauses
	kf := []string{}
	kf = append(kf, knownLines...)
	cov["known_findings"] = kf
	as := []string{}
	for a := range assumptions {
		as = append(as, a)
	}
	sort.Strings(as)
	if prop.MinObl > 0 {
		if n, _ := cov["obligations"].(int); n < prop.MinObl && len(violations) == 0 {
			rp := writeReplay(filepath.Join(outDir(), "replays", id), "vacuity.obligation-count", map[string]interface{}{"property": id, "obligation": "vacuity#obligation-count", "have": n, "floor": prop.MinObl, "status": "no-model"})
			violations = append(violations, violation{obl: "vacuity#obligation-count", replay: rp, noInput: true})
		}
	}
	evid["property_id"] = id
	evid["tier"] = tier
	evid["seed"] = seed
	evid["level"] = level
	evid["coverage"] = cov
	evid["assumptions"] = as
	evid["wall_s"] = round3(time.Since(t0).Seconds())
	evid["violations"] = len(violations)
	os.MkdirAll(filepath.Join(outDir(), "evidence"), 0o755)
	b, _ := json.MarshalIndent(evid, "", " ")
	os.WriteFile(filepath.Join(outDir(), "evidence", id+".json"), b, 0o644)
	for _, k := range knownLines {
		fmt.Println(k)
	}
	for _, v := range violations {
		suffix := ""
		if v.noInput {
			suffix = " obligation=" + v.obl + " no-failing-input-found"
		} else {
			suffix = " obligation=" + v.obl
		}
		fmt.Printf("VIOLATION property=%s replay=%s%s\n", id, v.replay, suffix)
	}
	fmt.Printf("%s: %v/%v obligations discharged, %d violation(s), %d known finding(s), %.1fs\n", id, cov["discharged"], cov["obligations"], len(violations), len(knownLines), time.Since(t0).Seconds())
	if len(violations) > 0 {
		return 1
	}
	return 0
}

// runBounded runs a bounded stand-in: a Go test file from /verif/bounded injected into the package by overlay.
func runBounded(pkg, testFile, run, bound string, seed int, race bool) (ok bool, output string, cases int, secs float64) {
	if race {
		ok, output, cases, secs = runBounded1(pkg, testFile, run, bound, seed, true)
		ran := strings.Contains(output, "--- FAIL") || strings.Contains(output, "WARNING: DATA RACE") || strings.Contains(output, "panic:") || strings.Contains(output, "fatal error:")
		if ok || ran {
			return
		}
		// the test binary was not built or did not start: the race detector cannot be used here (no cgo, no C
		// compiler, no race runtime for the platform): the same run without it
	}
	return runBounded1(pkg, testFile, run, bound, seed, false)
}

func runBounded1(pkg, testFile, run, bound string, seed int, race bool) (ok bool, output string, cases int, secs float64) {
	t0 := time.Now()
	src := filepath.Join(verifDir, "bounded", testFile)
	dir, _ := os.MkdirTemp("", "govcb")
	defer os.RemoveAll(dir)
	ov := map[string]map[string]string{"Replace": {filepath.Join(repoDir, pkg, "zz_govc_bounded_test.go"): src}}
	ob, _ := json.Marshal(ov)
	ovf := filepath.Join(dir, "ov.json")
	os.WriteFile(ovf, ob, 0o644)
	args := []string{"test", "-tags", "verif", "-overlay", ovf, "-v", "-vet=off", "-count=1", "-timeout", "600s", "-run", run}
	if race {
		args = append(args, "-race")
	}
	cmd := exec.Command("go", append(args, "./"+pkg)...)
	cmd.Dir = repoDir
	cmd.Env = append(os.Environ(), "GOFLAGS=-mod=mod", "GOPROXY=off", "GOSUMDB=off", "GOTOOLCHAIN=local", "GOVC_BOUND="+bound, fmt.Sprintf("GOVC_SEED=%d", seed))
	out, err := cmd.CombinedOutput()
	output = string(out)
	for _, ln := range strings.Split(output, "\n") {
		if k := strings.Index(ln, "GOVC-CASES="); k >= 0 {
			n, _ := strconv.Atoi(strings.TrimSpace(ln[k+11:]))
			cases += n
		}
	}
	return err == nil, output, cases, round3(time.Since(t0).Seconds())
}
