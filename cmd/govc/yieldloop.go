package main

// Iteration through a callback: `for x := range recv.Each { body }` and `scan(r, func(cur) bool { body })`, where the
// callee's contract gives the callback parameter the role `yield`. The callee is called by contract on a trace of
// its own (ncalls starts at 0): its postconditions describe the final trace T (how many calls, which arguments, that
// every call but the last returned true). The body is then verified like a loop body over that trace: at iteration it
// (0 <= it < T.len) it receives T.arg[it]; whatever it returns is T.ret[it]; the invariants of `loop N` hold at every
// it, and the code after the call continues from the invariant at it == T.len. The callee may modify nothing but the
// trace (a pure iterator), so the order of its own steps and the body's steps does not matter.

import (
	"fmt"
	"go/ast"
	"go/token"
	"go/types"
	"strings"
)

type closureRetCtx struct {
	ends []*State
	vals [][]Term
}

// yieldParam reports which parameter of the callee (by index) has the role yield, -1 if none.
func yieldParam(fc *FuncContract, osig *types.Signature) int {
	if fc == nil {
		return -1
	}
	for i := 0; i < osig.Params().Len(); i++ {
		if fc.Roles[osig.Params().At(i).Name()] == "yield" {
			return i
		}
	}
	return -1
}

func (fv *FV) calleeContract(callee *types.Func) (*FuncContract, *PkgContracts, *FuncInfo) {
	fi := fv.w.lookupFunc(callee)
	if fi != nil {
		return fi.Contract, fi.PC, fi
	}
	fc, pc := fv.w.libContract(callee)
	return fc, pc, nil
}

type yieldTrace struct {
	n, arg, ret string
	argT    types.Type
}

// beginCalleeTrace gives the callee a trace of its own; the returned function restores the caller's.
func (fv *FV) beginCalleeTrace(st *State, argT types.Type) (restore func() yieldTrace) {
	as := fv.sortOf(argT)
	kl, ka, kr := fv.callsComp("len", ""), fv.callsComp("arg", as), fv.callsComp("ret", "")
	ol, oa, or := fv.heapGet(st, kl), fv.heapGet(st, ka), fv.heapGet(st, kr)
	fv.heapSetNoFrame(st, kl, "0")
	return func() yieldTrace {
		t := yieldTrace{n: fv.heapGet(st, kl), arg: fv.heapGet(st, ka), ret: fv.heapGet(st, kr), argT: argT}
		fv.heapSetNoFrame(st, kl, ol)
		fv.heapSetNoFrame(st, ka, oa)
		fv.heapSetNoFrame(st, kr, or)
		return t
	}
}

// onlyTrace: the callee's modifies clauses name nothing but the trace of its callback.
func onlyTrace(fc *FuncContract) bool {
	for _, m := range fc.Modifies {
		c, ok := m.(*SCall)
		if !ok || c.Fn != "calls" {
			return false
		}
	}
	return true
}

// yieldLoop verifies the body over the trace and returns the state after the last iteration.
func (fv *FV) yieldLoop(st *State, tr yieldTrace, ord int, nodes []ast.Node, bodyBlock *ast.BlockStmt, pos token.Pos,
	run func(body *State, arg Term) (ends []*State, rets []string)) *State {
	ls := fv.loopSpec(ord)
	scopePos := bodyBlock.Lbrace + 1
	itName := fmt.Sprintf("it%d", ord)
	fv.assume(st, app(">=", tr.n, "0"))
	st.ghost[itName] = Term{S: "0", Sort: sInt, T: types.Typ[types.Int]}
	// the callee's trace is visible to the invariants of this loop as yn<N> (number of calls), yarg<N>, yret<N>
	as := fv.sortOf(tr.argT)
	st.ghost[fmt.Sprintf("yn%d", ord)] = Term{S: tr.n, Sort: sInt, T: types.Typ[types.Int]}
	st.ghost[fmt.Sprintf("yarg%d", ord)] = Term{S: tr.arg, Sort: arr(sInt, as), T: &specType{sort: arr(sInt, as), elem: tr.argT}}
	st.ghost[fmt.Sprintf("yret%d", ord)] = Term{S: tr.ret, Sort: arr(sInt, sBool), T: &specType{sort: arr(sInt, sBool), elem: types.Typ[types.Bool]}}
	fv.pendingIt, fv.pendingItBound = itName, tr.n
	head := fv.loopHead(st, ls, ord, pos, scopePos, nodes, bodyBlock)
	it := fv.pendingItTerm
	if ls != nil && len(ls.Invariants) > 0 {
		fv.obligeSat(head, fmt.Sprintf("vacuity.loop%d", ord), "the loop invariants are satisfiable")
	}
	body := fv.fork(head, app("<", it.S, tr.n))
	exit := fv.fork(head, eq(it.S, tr.n))
	arg := Term{S: sel(tr.arg, it.S), Sort: fv.sortOf(tr.argT), T: tr.argT}
	fv.ghostAt(body, fmt.Sprintf("loop %d head", ord), scopePos)
	ends, rets := run(body, arg)
	for k, end := range ends {
		if end == nil {
			continue
		}
		phase := "preserve"
		if k > 0 {
			phase = fmt.Sprintf("preserve@path%d", k)
		}
		// what the body returned is what the trace recorded for this call
		fv.assume(end, eq(rets[k], sel(tr.ret, it.S)))
		end.ghost[itName] = Term{S: app("+", it.S, "1"), Sort: sInt, T: types.Typ[types.Int]}
		fv.ghostAt(end, fmt.Sprintf("loop %d end", ord), scopePos)
		fv.obligeSat(end, fmt.Sprintf("vacuity.loop%d.%s", ord, phase), "the end of the loop body is reachable under everything assumed on the way")
		fv.checkInvariants(end, ls, ord, phase, pos, scopePos)
	}
	exit.ghost[itName] = it
	fv.ghostAt(exit, fmt.Sprintf("loop %d exit", ord), pos)
	return exit
}

// callWithYieldClosure: a call whose argument number yi is a function literal received by a yield parameter.
func (fv *FV) callWithYieldClosure(st *State, callee *types.Func, recv *Term, recvExpr ast.Expr, c *ast.CallExpr, yi int, lit *ast.FuncLit) []Term {
	fc, _, _ := fv.calleeContract(callee)
	if !onlyTrace(fc) {
		fv.fail(c.Pos(), "call of %s with a function literal: the callee modifies more than the trace of its callback", callee.Name())
	}
	sig := fv.typeOf(lit).(*types.Signature)
	if sig.Params().Len() != 1 || sig.Results().Len() != 1 {
		fv.fail(c.Pos(), "yield callback literal must take one argument and return bool")
	}
	argT := sig.Params().At(0).Type()
	restore := fv.beginCalleeTrace(st, argT)
	fv.inYieldCall++
	results := fv.callStatic(st, callee, recv, recvExpr, c)
	fv.inYieldCall--
	tr := restore()
	ord := fv.loopOrd[fv.litStmt(lit)]
	var pn *ast.Ident
	if names := lit.Type.Params.List[0].Names; len(names) > 0 {
		pn = names[0]
	}
	exit := fv.yieldLoop(st, tr, ord, []ast.Node{lit.Body}, lit.Body, c.Pos(), func(body *State, arg Term) ([]*State, []string) {
		if pn != nil && pn.Name != "_" {
			fv.setVar(body, fv.info.Defs[pn], arg)
		}
		ctx := &closureRetCtx{}
		fv.closureRet = append(fv.closureRet, ctx)
		end := fv.execBlock(body, lit.Body.List)
		fv.closureRet = fv.closureRet[:len(fv.closureRet)-1]
		if end != nil && end.guard != "false" {
			fv.fail(lit.End(), "function literal may end without returning")
		}
		var rets []string
		for _, v := range ctx.vals {
			if len(v) != 1 || v[0].Sort != sBool {
				fv.fail(lit.Pos(), "yield callback literal must return one bool")
			}
			rets = append(rets, v[0].S)
		}
		return ctx.ends, rets
	})
	*st = *exit
	return results
}

// litStmt wraps a function literal so that it can be a key of loopOrd (one wrapper per literal).
func (fv *FV) litStmt(lit *ast.FuncLit) ast.Stmt {
	if fv.litStmts == nil {
		fv.litStmts = map[*ast.FuncLit]ast.Stmt{}
	}
	if s, ok := fv.litStmts[lit]; ok {
		return s
	}
	s := &ast.ExprStmt{X: lit}
	fv.litStmts[lit] = s
	return s
}

// isYieldLitArg: argument i of the call is a function literal and the static callee gives that parameter role yield.
func (fv *FV) yieldLitArg(c *ast.CallExpr) (callee *types.Func, yi int, lit *ast.FuncLit) {
	var fn *types.Func
	switch f := ast.Unparen(c.Fun).(type) {
	case *ast.Ident:
		fn, _ = fv.info.ObjectOf(f).(*types.Func)
	case *ast.IndexExpr:
		if id, ok := f.X.(*ast.Ident); ok {
			fn, _ = fv.info.ObjectOf(id).(*types.Func)
		}
	case *ast.SelectorExpr:
		if sel := fv.info.Selections[f]; sel != nil {
			if sel.Kind() == types.MethodVal {
				fn, _ = sel.Obj().(*types.Func)
			}
		} else {
			fn, _ = fv.info.ObjectOf(f.Sel).(*types.Func)
		}
	}
	if fn == nil {
		return nil, -1, nil
	}
	fc, _, _ := fv.calleeContract(fn)
	yi = yieldParam(fc, fn.Origin().Type().(*types.Signature))
	if yi < 0 || yi >= len(c.Args) {
		return nil, -1, nil
	}
	l, ok := ast.Unparen(c.Args[yi]).(*ast.FuncLit)
	if !ok {
		return nil, -1, nil
	}
	return fn, yi, l
}

// execRangeFuncMethod: for x := range recv.M { body } with M's parameter in role yield.
func (fv *FV) execRangeFuncMethod(st *State, x *ast.RangeStmt, label string, ord int, keyObj types.Object) *State {
	if ce, ok := ast.Unparen(x.X).(*ast.CallExpr); ok {
		return fv.execRangeSeqCall(st, x, ce, label, ord, keyObj)
	}
	if id, ok := ast.Unparen(x.X).(*ast.Ident); ok {
		if _, isVar := fv.info.ObjectOf(id).(*types.Var); isVar {
			return fv.execRangeSeqValue(st, x, id, label, ord, keyObj)
		}
	}
	se, ok := ast.Unparen(x.X).(*ast.SelectorExpr)
	if !ok {
		fv.fail(x.Pos(), "range over a function value that is not a method value")
	}
	sel := fv.info.Selections[se]
	if sel == nil || sel.Kind() != types.MethodVal {
		fv.fail(x.Pos(), "range over a function value that is not a method value")
	}
	callee := sel.Obj().(*types.Func)
	fc, _, _ := fv.calleeContract(callee)
	osig := callee.Origin().Type().(*types.Signature)
	yi := yieldParam(fc, osig)
	if fc == nil || yi != 0 || osig.Params().Len() != 1 {
		fv.fail(x.Pos(), "range over %s: the method needs a contract giving its single parameter the role yield", callee.Name())
	}
	if !onlyTrace(fc) {
		fv.fail(x.Pos(), "range over %s: the method modifies more than the trace of its callback", callee.Name())
	}
	ysig, ok := callee.Type().(*types.Signature).Params().At(0).Type().Underlying().(*types.Signature)
	if !ok || ysig.Params().Len() != 1 {
		fv.fail(x.Pos(), "range over %s: unsupported yield signature", callee.Name())
	}
	// the instantiated element type comes from the method value's own type
	if ms, ok := fv.typeOf(se).Underlying().(*types.Signature); ok && ms.Params().Len() == 1 {
		if ys, ok := ms.Params().At(0).Type().Underlying().(*types.Signature); ok && ys.Params().Len() == 1 {
			ysig = ys
		}
	}
	argT := ysig.Params().At(0).Type()
	recv := fv.evalExpr(st, se.X)
	call := &ast.CallExpr{Fun: se, Lparen: x.Pos(), Rparen: x.Pos(), Args: []ast.Expr{&ast.Ident{Name: "_govc_yield_", NamePos: x.Pos()}}}
	return fv.rangeOverCall(st, x, callee, &recv, se.X, call, argT, callee.Type().(*types.Signature).Params().At(0).Type(), label, ord, keyObj)
}

// execRangeSeqCall: for x := range f(args) { body } where f's contract says `seq yield` (f only returns a range function).
func (fv *FV) execRangeSeqCall(st *State, x *ast.RangeStmt, ce *ast.CallExpr, label string, ord int, keyObj types.Object) *State {
	var callee *types.Func
	var recv *Term
	var recvExpr ast.Expr
	switch f := ast.Unparen(ce.Fun).(type) {
	case *ast.Ident:
		callee, _ = fv.info.ObjectOf(f).(*types.Func)
	case *ast.IndexExpr:
		if id, ok := f.X.(*ast.Ident); ok {
			callee, _ = fv.info.ObjectOf(id).(*types.Func)
		}
	case *ast.SelectorExpr:
		if sel := fv.info.Selections[f]; sel != nil {
			if sel.Kind() == types.MethodVal {
				callee, _ = sel.Obj().(*types.Func)
				r := fv.evalExpr(st, f.X)
				recv, recvExpr = &r, f.X
			}
		} else {
			callee, _ = fv.info.ObjectOf(f.Sel).(*types.Func)
		}
	}
	if callee == nil {
		fv.fail(x.Pos(), "range over the result of a call that is not a static call")
	}
	fc, _, _ := fv.calleeContract(callee)
	if fc == nil || fc.Seq == "" {
		fv.fail(x.Pos(), "range over %s(…): the function needs a contract with `seq NAME`", callee.Name())
	}
	if !onlyTrace(fc) {
		fv.fail(x.Pos(), "range over %s(…): the range function modifies more than the trace of its callback", callee.Name())
	}
	seqSig, ok := fv.typeOf(ce).Underlying().(*types.Signature)
	if !ok || seqSig.Params().Len() != 1 {
		fv.fail(x.Pos(), "range over %s(…): the result is not a single-value range function", callee.Name())
	}
	cbT := seqSig.Params().At(0).Type()
	ysig, ok := cbT.Underlying().(*types.Signature)
	if !ok || ysig.Params().Len() != 1 {
		fv.fail(x.Pos(), "range over %s(…): unsupported yield signature", callee.Name())
	}
	args := append(append([]ast.Expr{}, ce.Args...), &ast.Ident{Name: "_govc_yield_", NamePos: x.Pos()})
	call := &ast.CallExpr{Fun: ce.Fun, Lparen: ce.Lparen, Rparen: ce.Rparen, Args: args}
	return fv.rangeOverCall(st, x, callee, recv, recvExpr, call, ysig.Params().At(0).Type(), cbT, label, ord, keyObj)
}

// rangeOverCall: the callee is called by contract on a trace of its own with an opaque callback, then the body of
// the range statement is verified as a loop over that trace.
func (fv *FV) rangeOverCall(st *State, x *ast.RangeStmt, callee *types.Func, recv *Term, recvExpr ast.Expr, call *ast.CallExpr, argT, cbT types.Type, label string, ord int, keyObj types.Object) *State {
	restore := fv.beginCalleeTrace(st, argT)
	// a synthetic call whose callback argument is an opaque function value
	cb := Term{S: fv.fresh("yieldcb", sInt), Sort: sInt, T: cbT}
	fv.assume(st, app(">", cb.S, "0"))
	fv.rangeCallback = &cb
	fv.info.Types[call] = types.TypeAndValue{Type: types.NewTuple()}
	fv.inYieldCall++
	fv.callStatic(st, callee, recv, recvExpr, call)
	fv.inYieldCall--
	fv.rangeCallback = nil
	tr := restore()
	return fv.rangeBodyLoop(st, x, tr, label, ord, keyObj)
}

// execRangeSeqValue: for v := range it { body } where it is a function-typed variable (an iter.Seq parameter). Nothing
// is known about it but what a range function is: it calls its argument some number of times, stops for good when a
// call returns false, and (assumption, recorded) does nothing else the function under verification can observe. The
// body is verified over an arbitrary such trace.
func (fv *FV) execRangeSeqValue(st *State, x *ast.RangeStmt, id *ast.Ident, label string, ord int, keyObj types.Object) *State {
	sig, ok := fv.typeOf(id).Underlying().(*types.Signature)
	if !ok || sig.Params().Len() != 1 || sig.Results().Len() != 0 {
		fv.fail(x.Pos(), "range over %s: not a single-value range function", id.Name)
	}
	ysig, ok := sig.Params().At(0).Type().Underlying().(*types.Signature)
	if !ok || ysig.Params().Len() != 1 {
		fv.fail(x.Pos(), "range over %s: unsupported yield signature", id.Name)
	}
	fv.evalExpr(st, id) // the variable must be readable here
	argT := ysig.Params().At(0).Type()
	tr := yieldTrace{n: fv.fresh("itn", sInt), arg: fv.fresh("itarg", arr(sInt, fv.sortOf(argT))), ret: fv.fresh("itret", arr(sInt, sBool)), argT: argT}
	fv.assume(st, app(">=", tr.n, "0"))
	fv.assume(st, fmt.Sprintf("(forall ((j Int)) (! (=> (and (<= 0 j) (< j (- %s 1))) (select %s j)) :pattern ((select %s j))))", tr.n, tr.ret, tr.ret))
	fv.assumptions["range over a function-typed parameter: the iterator calls its argument any number of times, never again after a call returned false, and has no other effect visible to the caller"] = true
	return fv.rangeBodyLoop(st, x, tr, label, ord, keyObj)
}

// rangeBodyLoop verifies the body of a range-over-function statement as a loop over the trace tr.
func (fv *FV) rangeBodyLoop(st *State, x *ast.RangeStmt, tr yieldTrace, label string, ord int, keyObj types.Object) *State {
	exit := fv.yieldLoop(st, tr, ord, []ast.Node{x.Body}, x.Body, x.Pos(), func(body *State, arg Term) ([]*State, []string) {
		if keyObj != nil {
			fv.setVar(body, keyObj, arg)
		}
		lc := &loopCtx{label: label}
		fv.ctx = append(fv.ctx, lc)
		ctx := &closureRetCtx{}
		fv.closureRet = append(fv.closureRet, ctx)
		end := fv.execBlock(body, x.Body.List)
		fv.closureRet = fv.closureRet[:len(fv.closureRet)-1]
		fv.ctx = fv.ctx[:len(fv.ctx)-1]
		if len(ctx.ends) > 0 {
			fv.fail(x.Pos(), "return inside the body of a range over a function")
		}
		var ends []*State
		var rets []string
		for _, e := range append([]*State{end}, lc.continues...) {
			ends, rets = append(ends, e), append(rets, "true")
		}
		for _, e := range lc.breaks {
			ends, rets = append(ends, e), append(rets, "false")
		}
		return ends, rets
	})
	return exit
}

var _ = strings.TrimSpace
