package main

// Go expressions → SMT terms, with automatic safety obligations.

import (
	"sort"
	"bytes"
	"fmt"
	"go/ast"
	"go/constant"
	"go/printer"
	"go/token"
	"go/types"
	"strings"
)

func (fv *FV) src(n ast.Node) string {
	var b bytes.Buffer
	printer.Fprint(&b, fv.w.fset, n)
	s := b.String()
	s = strings.Join(strings.Fields(s), " ")
	if len(s) > 60 {
		s = s[:60] + "…"
	}
	return s
}

// panicsEntry is the function's own `panics when` condition on entry values ("false" if none).
func (fv *FV) panicsEntry() string {
	if fv.fc == nil || fv.fc.PanicsWhen == nil {
		return "false"
	}
	env := fv.postEnv(fv.entry, nil)
	env.st = fv.entry
	return fv.specBool(env, fv.fc.PanicsWhen)
}

// safety emits an automatic safety obligation and assumes it afterwards.
func (fv *FV) safety(st *State, kind string, phi string, desc string, pos token.Pos) {
	if phi == "true" {
		return
	}
	goal := phi
	if pe := fv.panicsEntry(); pe != "false" {
		goal = or(phi, pe)
	}
	fv.oblige(st, kind, goal, desc, nil, pos)
	fv.assume(st, phi)
}

func (fv *FV) typeOf(e ast.Expr) types.Type {
	tv, ok := fv.info.Types[e]
	if !ok {
		if id, ok := e.(*ast.Ident); ok {
			if o := fv.info.ObjectOf(id); o != nil {
				return o.Type()
			}
		}
		fv.fail(e.Pos(), "no type for %s", fv.src(e))
	}
	return tv.Type
}

func (fv *FV) constTerm(st *State, v constant.Value, t types.Type) Term {
	s := sInt
	if t != nil {
		if b, ok := t.Underlying().(*types.Basic); ok && b.Info()&types.IsUntyped == 0 {
			s = fv.sortOf(t)
		} else if ok && (b.Kind() == types.UntypedString) {
			s = sStr
		} else if ok && b.Kind() == types.UntypedBool {
			s = sBool
		}
	}
	switch v.Kind() {
	case constant.Bool:
		return mkBool(constant.BoolVal(v))
	case constant.Int:
		if isBV(s) {
			u, _ := constant.Uint64Val(v)
			if constant.Sign(v) < 0 {
				i, _ := constant.Int64Val(v)
				u = uint64(i)
			}
			w := bvWidth(s)
			if w < 64 {
				u &= (1 << uint(w)) - 1
			}
			return Term{S: fmt.Sprintf("(_ bv%d %d)", u, w), Sort: s, T: t}
		}
		r := mkIntS(v.ExactString())
		r.T = t
		if t != nil {
			if b, ok := t.Underlying().(*types.Basic); ok && b.Info()&types.IsUntyped == 0 {
				r.Lit = false
			}
		}
		return r
	case constant.String:
		return fv.stringLit(st, constant.StringVal(v))
	}
	fv.fail(token.NoPos, "unsupported constant %v", v)
	return Term{}
}

// stringLit: a constant string is a fixed base with known bytes.
func (fv *FV) stringLit(st *State, v string) Term {
	name := fmt.Sprintf("strlit$%x", v)
	if len(name) > 60 {
		name = fmt.Sprintf("strlit$%x$%d", v[:20], len(v))
	}
	if !fv.declared[name] {
		fv.declared[name] = true
		fv.decls = append(fv.decls, fmt.Sprintf("(declare-const %s Int)", name))
		var fs []string
		fs = append(fs, app("<", name, "0")) // literal bases are negative: never allocated dynamically
		for i := 0; i < len(v); i++ {
			fs = append(fs, eq(fmt.Sprintf("(strdata %s %d)", name, i), fmt.Sprintf("(_ bv%d 8)", v[i])))
		}
		fv.axioms = append(fv.axioms, and(fs...))
	}
	t := Term{S: fmt.Sprintf("(mk-str %s 0 %d)", name, len(v)), Sort: sStr, T: types.Typ[types.String]}
	if fv.strLits == nil {
		fv.strLits = map[string]string{}
	}
	fv.strLits[t.S] = v
	return t
}

func (fv *FV) evalCond(st *State, e ast.Expr) string {
	t := fv.evalExpr(st, e)
	if t.Sort != sBool {
		fv.fail(e.Pos(), "condition is not boolean: %s", fv.src(e))
	}
	return t.S
}

func (fv *FV) evalExpr(st *State, e ast.Expr) Term {
	if tv, ok := fv.info.Types[e]; ok && tv.Value != nil {
		return fv.constTerm(st, tv.Value, tv.Type)
	}
	switch x := e.(type) {
	case *ast.ParenExpr:
		return fv.evalExpr(st, x.X)
	case *ast.Ident:
		if x.Name == "nil" {
			return nilTerm
		}
		if x.Name == "true" || x.Name == "false" {
			return mkBool(x.Name == "true")
		}
		obj := fv.info.ObjectOf(x)
		if t, ok := st.vars[obj]; ok {
			return t
		}
		if t, ok := fv.globalObj(st, obj); ok {
			return t
		}
		if v, ok := obj.(*types.Var); ok && !v.IsField() && v.Parent() == v.Pkg().Scope() {
			return fv.pkgVar(st, v)
		}
		fv.fail(x.Pos(), "unknown variable %s", x.Name)
	case *ast.BasicLit:
		fv.fail(x.Pos(), "unexpected literal %s", x.Value)
	case *ast.UnaryExpr:
		return fv.evalUnary(st, x)
	case *ast.BinaryExpr:
		return fv.evalBinary(st, x)
	case *ast.SelectorExpr:
		return fv.evalSelector(st, x)
	case *ast.IndexExpr:
		// constant package-level table
		if sels, ok := fv.evalTable(st, x); ok {
			if t, ok := fv.tableTerm(sels); ok {
				return fv.nameTerm(st, "tbl", t)
			}
			fv.fail(x.Pos(), "partially indexed table %s used as a value", fv.src(x))
		}
		// generic function instantiation used as a value: nmove[T]
		if tv, ok := fv.info.Types[x.X]; ok {
			if _, isSig := tv.Type.Underlying().(*types.Signature); isSig {
				if id, ok := x.X.(*ast.Ident); ok {
					if f, ok := fv.info.ObjectOf(id).(*types.Func); ok {
						return fv.funcValue(f)
					}
				}
			}
		}
		a := fv.evalExpr(st, x.X)
		if mt, ok := underMap(a.T); ok {
			k := fv.evalExpr(st, x.Index)
			return fv.mapRead(st, a, k, mt)
		}
		i := fv.evalExpr(st, x.Index)
		i = fv.toInt(i)
		n := fv.lenTerm(st, a)
		fv.safety(st, "idx["+fv.src(x)+"]", and(app("<=", "0", i.S), app("<", i.S, n.S)), "index in range: "+fv.src(x), x.Pos())
		return fv.indexTerm(st, a, i)
	case *ast.SliceExpr:
		a := fv.evalExpr(st, x.X)
		lo, hi, max := mkInt(0), Term{}, Term{}
		if x.Low != nil {
			lo = fv.toInt(fv.evalExpr(st, x.Low))
		}
		if x.High != nil {
			hi = fv.toInt(fv.evalExpr(st, x.High))
		}
		if x.Max != nil {
			max = fv.toInt(fv.evalExpr(st, x.Max))
		}
		if a.Sort == sStr {
			h := "(strlen " + a.S + ")"
			if hi.S != "" {
				h = hi.S
			}
			fv.safety(st, "slice["+fv.src(x)+"]", and(app("<=", "0", lo.S), app("<=", lo.S, h), app("<=", h, "(strlen "+a.S+")")), "string slice bounds: "+fv.src(x), x.Pos())
			return fv.sliceTerm(a, lo, hi, max)
		}
		h := "(slen " + a.S + ")"
		if hi.S != "" {
			h = hi.S
		}
		c := "(scap " + a.S + ")"
		var cs []string
		cs = append(cs, app("<=", "0", lo.S), app("<=", lo.S, h))
		if max.S != "" {
			cs = append(cs, app("<=", h, max.S), app("<=", max.S, c))
		} else {
			cs = append(cs, app("<=", h, c))
		}
		fv.safety(st, "slice["+fv.src(x)+"]", and(cs...), "slice bounds: "+fv.src(x), x.Pos())
		r := fv.sliceTerm(a, lo, hi, max)
		// name the result to keep terms small
		r = fv.nameTerm(st, "sl", r)
		if fv.usesBag() && elemType(a.T) != nil {
			// ground instance: the range [lo, hi+1) is the range [lo, hi) plus the element at hi (when hi < len)
			short := fv.bagTerm(st, r, "0", "(slen "+r.S+")")
			long := fv.bagTerm(st, r, "0", "(+ (slen "+r.S+") 1)")
			last := fv.indexTerm(st, a, Term{S: h, Sort: sInt})
			fv.define(st, implies(app("<", h, "(slen "+a.S+")"), eq(long.S, sto(short.S, last.S, app("+", sel(short.S, last.S), "1")))))
		}
		return r
	case *ast.CallExpr:
		rs := fv.evalCall(st, x)
		if len(rs) != 1 {
			fv.fail(x.Pos(), "call %s used as a single value has %d results", fv.src(x), len(rs))
		}
		return rs[0]
	case *ast.StarExpr:
		p := fv.evalExpr(st, x.X)
		return fv.derefRead(st, p, x.Pos())
	case *ast.CompositeLit:
		return fv.evalCompositeLit(st, x, false)
	case *ast.FuncLit:
		return fv.evalFuncLit(st, x)
	case *ast.TypeAssertExpr:
		v := fv.evalExpr(st, x.X)
		// modelled as identity: the dynamic type is assumed to match (pool contract)
		fv.assumptions["type assertion "+fv.src(x)+" assumed to succeed (value comes from a sync.Pool of that type)"] = true
		v.T = fv.typeOf(x)
		return v
	}
	fv.fail(e.Pos(), "unsupported expression %s (%T)", fv.src(e), e)
	return Term{}
}

func (fv *FV) nameTerm(st *State, hint string, t Term) Term {
	c := fv.fresh(hint, t.Sort)
	fv.define(st, eq(c, t.S))
	t.S = c
	t.Lit = false
	return t
}

// toInt: indices and lengths are mathematical integers; unsigned Go ints are non-negative Ints already.
func (fv *FV) toInt(t Term) Term {
	if t.Sort == sInt {
		return t
	}
	if isBV(t.Sort) {
		return Term{S: app("bv2nat", t.S), Sort: sInt, T: types.Typ[types.Int]}
	}
	fv.fail(token.NoPos, "expected an integer, got %s", t.Sort)
	return t
}

func (fv *FV) pkgVar(st *State, v *types.Var) Term {
	key := "V:" + shortPkg(pkgPathOf(v)) + "." + v.Name()
	s := fv.sortOf(v.Type())
	fv.compSort[key] = s
	t := Term{S: fv.heapGet(st, key), Sort: s, T: v.Type()}
	if v.Exported() && types.Identical(v.Type(), types.Universe.Lookup("error").Type()) && !fv.declared["nonnil:"+key] {
		fv.declared["nonnil:"+key] = true
		fv.axioms = append(fv.axioms, not(eq(compConst(key), "0")))
		fv.assumptions["exported error variable "+v.Pkg().Name()+"."+v.Name()+" is non-nil and is not reassigned"] = true
	}
	return t
}

func (fv *FV) evalUnary(st *State, x *ast.UnaryExpr) Term {
	switch x.Op {
	case token.NOT:
		return Term{S: not(fv.evalCond(st, x.X)), Sort: sBool}
	case token.SUB:
		v := fv.evalExpr(st, x.X)
		if v.Sort == sInt {
			return Term{S: app("-", v.S), Sort: sInt, T: v.T}
		}
		if isBV(v.Sort) {
			return Term{S: app("bvneg", v.S), Sort: v.Sort, T: v.T}
		}
	case token.ADD:
		return fv.evalExpr(st, x.X)
	case token.XOR:
		v := fv.evalExpr(st, x.X)
		if isBV(v.Sort) {
			return Term{S: app("bvnot", v.S), Sort: v.Sort, T: v.T}
		}
	case token.AND:
		return fv.evalAddrOf(st, x)
	}
	fv.fail(x.Pos(), "unsupported unary expression %s", fv.src(x))
	return Term{}
}

func (fv *FV) evalBinary(st *State, x *ast.BinaryExpr) Term {
	switch x.Op {
	case token.LAND, token.LOR:
		l := fv.evalCond(st, x.X)
		// right operand is evaluated only under l (&&) or !l (||): obligations inside it get that guard
		sub := st.clone()
		skip := st.clone()
		if x.Op == token.LAND {
			sub.guard = fv.newGuard(sub, l)
			skip.guard = fv.newGuard(skip, not(l))
		} else {
			sub.guard = fv.newGuard(sub, not(l))
			skip.guard = fv.newGuard(skip, l)
		}
		r := fv.evalCond(sub, x.Y)
		// the right operand may have side effects (a call): join the two ways of getting past the operator
		m := fv.merge(sub, skip)
		*st = *m
		if x.Op == token.LAND {
			return Term{S: and(l, r), Sort: sBool}
		}
		return Term{S: or(l, r), Sort: sBool}
	}
	l := fv.evalExpr(st, x.X)
	r := fv.evalExpr(st, x.Y)
	switch x.Op {
	case token.EQL:
		return Term{S: fv.goEq(st, l, r, x), Sort: sBool}
	case token.NEQ:
		return Term{S: not(fv.goEq(st, l, r, x)), Sort: sBool}
	case token.QUO, token.REM:
		l, r = fv.coerce(l, r)
		if r.Sort == sInt {
			fv.safety(st, "div["+fv.src(x)+"]", not(eq(r.S, "0")), "divisor non-zero: "+fv.src(x), x.Pos())
			return fv.arith(x.Op.String(), l, r, true, st, x.Pos())
		}
		if isBV(r.Sort) {
			fv.safety(st, "div["+fv.src(x)+"]", not(eq(r.S, fmt.Sprintf("(_ bv0 %d)", bvWidth(r.Sort)))), "divisor non-zero: "+fv.src(x), x.Pos())
		}
		return fv.arith(x.Op.String(), l, r, true, st, x.Pos())
	case token.SHL, token.SHR:
		if isBV(l.Sort) {
			rr := r
			if rr.Sort == sInt {
				if rr.Lit {
					rr, _ = fv.coerce(rr, l)
				} else {
					rr = Term{S: fmt.Sprintf("((_ int2bv %d) %s)", bvWidth(l.Sort), r.S), Sort: l.Sort}
				}
			} else if rr.Sort != l.Sort {
				fv.fail(x.Pos(), "shift count of a different width")
			}
			return fv.arith(x.Op.String(), l, rr, true, st, x.Pos())
		}
		if l.Sort == sInt && r.Lit {
			var k int
			fmt.Sscanf(r.S, "%d", &k)
			p := fmt.Sprint(int64(1) << uint(k))
			if x.Op == token.SHL {
				return Term{S: app("*", l.S, p), Sort: sInt, T: l.T}
			}
			return Term{S: app("div", l.S, p), Sort: sInt, T: l.T}
		}
		fv.fail(x.Pos(), "unsupported shift %s", fv.src(x))
	}
	res := fv.arith(x.Op.String(), l, r, true, st, x.Pos())
	// unsigned subtraction must not wrap (uint modelled as mathematical integer)
	if x.Op == token.SUB && res.Sort == sInt {
		if b, ok := fv.typeOf(x).Underlying().(*types.Basic); ok && b.Info()&types.IsUnsigned != 0 {
			fv.safety(st, "unsigned["+fv.src(x)+"]", app(">=", res.S, "0"), "unsigned subtraction does not wrap: "+fv.src(x), x.Pos())
		}
	}
	return res
}

func (fv *FV) goEq(st *State, l, r Term, x *ast.BinaryExpr) string {
	l, r = fv.coerce(l, r)
	if l.Sort == sStr && r.Sort == sStr {
		return fv.strEq(l, r)
	}
	if l.Sort == sSlice && !(isNilSlice(l) || isNilSlice(r)) {
		fv.fail(x.Pos(), "slices are only comparable to nil")
	}
	return fv.eqTerms(l, r)
}

// strEq: extensional equality of strings.
func (fv *FV) strEq(a, b Term) string {
	if fv.pc != nil && fv.pc.AbstractStrEq {
		fv.declare("strval$", "(declare-fun strval$ (Str) Int)")
		fv.assumptions["string equality in this package is equality of an uninterpreted content function of the string (no byte-level reasoning); the real content is one interpretation of it"] = true
		return eq(app("strval$", a.S), app("strval$", b.S))
	}
	fv.nfresh++
	k := fmt.Sprintf("k?%d", fv.nfresh)
	return and(eq("(strlen "+a.S+")", "(strlen "+b.S+")"),
		fmt.Sprintf("(forall ((%s Int)) (=> (and (<= 0 %s) (< %s (strlen %s))) (= (strdata (strbase %s) (+ (stroff %s) %s)) (strdata (strbase %s) (+ (stroff %s) %s)))))", k, k, k, a.S, a.S, a.S, k, b.S, b.S, k))
}

func (fv *FV) evalSelector(st *State, x *ast.SelectorExpr) Term {
	// package-qualified identifier
	if id, ok := x.X.(*ast.Ident); ok {
		if _, isPkg := fv.info.ObjectOf(id).(*types.PkgName); isPkg {
			obj := fv.info.ObjectOf(x.Sel)
			if t, ok := fv.globalObj(st, obj); ok {
				return t
			}
			if v, ok := obj.(*types.Var); ok {
				return fv.pkgVar(st, v)
			}
			fv.fail(x.Pos(), "unsupported package member %s", fv.src(x))
		}
	}
	sel := fv.info.Selections[x]
	if sel == nil {
		fv.fail(x.Pos(), "unresolved selector %s", fv.src(x))
	}
	switch sel.Kind() {
	case types.FieldVal:
		if len(sel.Index()) != 1 {
			fv.fail(x.Pos(), "embedded field access %s", fv.src(x))
		}
		v := fv.evalExpr(st, x.X)
		if _, isPtr := v.T.Underlying().(*types.Pointer); isPtr {
			fv.safety(st, "nil["+fv.src(x)+"]", not(eq(v.S, "0")), "nil dereference: "+fv.src(x), x.Pos())
			fv.guardCheck(st, v, x.Sel.Name, fv.src(x), x.Pos())
		}
		return fv.fieldTerm(st, v, x.Sel.Name)
	case types.MethodVal:
		// method value used as a function value
		fv.fail(x.Pos(), "method value %s", fv.src(x))
	case types.MethodExpr:
		if f, ok := sel.Obj().(*types.Func); ok {
			return fv.funcValue(f)
		}
	}
	fv.fail(x.Pos(), "unsupported selector %s", fv.src(x))
	return Term{}
}

func (fv *FV) evalCompositeLit(st *State, x *ast.CompositeLit, addr bool) Term {
	t := fv.typeOf(x)
	if pt, ok := t.Underlying().(*types.Pointer); ok && x.Type == nil {
		// elided `&T` in a literal of pointers: []*T{{…}}
		t, addr = pt.Elem(), true
	}
	switch ut := t.Underlying().(type) {
	case *types.Struct:
		named, _ := structOf(t)
		vals := make([]Term, ut.NumFields())
		for i := range vals {
			vals[i] = fv.zero(ut.Field(i).Type())
		}
		for i, el := range x.Elts {
			if kv, ok := el.(*ast.KeyValueExpr); ok {
				name := kv.Key.(*ast.Ident).Name
				for j := 0; j < ut.NumFields(); j++ {
					if ut.Field(j).Name() == name {
						v := fv.evalExpr(st, kv.Value)
						v, _ = fv.coerce(v, vals[j])
						vals[j] = v
					}
				}
			} else {
				v := fv.evalExpr(st, el)
				v, _ = fv.coerce(v, vals[i])
				vals[i] = v
			}
		}
		if !addr && isUserByRef(t) {
			// a value of a by-reference struct type is a fresh object
			p := fv.evalCompositeLit(st, x, true)
			p.T = t
			return p
		}
		if addr {
			if named == nil {
				fv.fail(x.Pos(), "address of anonymous struct literal")
			}
			r := fv.newRef(st, "new"+named.Obj().Name())
			for j := 0; j < ut.NumFields(); j++ {
				key, _ := fv.fieldComp(named, ut.Field(j))
				if isUserByRef(ut.Field(j).Type()) {
					// the embedded object is a new one; a value given in the literal is copied into it
					given := vals[j]
					e := fv.allocEmbedded(st, key, r, ut.Field(j).Type(), x.Pos())
					if given.S != "0" {
						fv.copyStruct(st, e, given.S, ut.Field(j).Type())
					}
					vals[j] = Term{S: e, Sort: sInt}
				} else if isOpaqueStruct(ut.Field(j).Type()) {
					vals[j] = Term{S: fv.newRef(st, "emb"+ut.Field(j).Name()), Sort: sInt} // the embedded object
				}
				fv.heapSetNoFrame(st, key, sto(fv.heapGet(st, key), r, vals[j].S))
			}
			fv.initGhostFields(st, named, r)
			return Term{S: r, Sort: sInt, T: types.NewPointer(t)}
		}
		s := fv.sortOf(t)
		var fs []string
		for _, v := range vals {
			fs = append(fs, v.S)
		}
		if len(fs) == 0 {
			fs = []string{"0"}
		}
		return Term{S: "(mk-" + s + " " + strings.Join(fs, " ") + ")", Sort: s, T: t}
	case *types.Slice:
		et := ut.Elem()
		key, _ := fv.elemComp(et)
		b := fv.newRef(st, "lit")
		a := sel(fv.heapGet(st, key), b)
		for i, el := range x.Elts {
			if _, ok := el.(*ast.KeyValueExpr); ok {
				fv.fail(x.Pos(), "keyed slice literal")
			}
			v := fv.evalExpr(st, el)
			v, _ = fv.coerce(v, Term{Sort: fv.sortOf(et)})
			a = sto(a, fmt.Sprint(i), v.S)
		}
		fv.heapSetNoFrame(st, key, sto(fv.heapGet(st, key), b, a))
		n := len(x.Elts)
		return Term{S: fmt.Sprintf("(mk-slice %s 0 %d %d)", b, n, n), Sort: sSlice, T: t}
	case *types.Map:
		if len(x.Elts) != 0 {
			fv.fail(x.Pos(), "non-empty map literal")
		}
		return fv.mapMake(st, t)
	}
	fv.fail(x.Pos(), "unsupported composite literal %s", fv.src(x))
	return Term{}
}

// heapSetNoFrame writes to a component for a freshly allocated reference (no frame obligation arises).
func (fv *FV) heapSetNoFrame(st *State, key, term string) {
	st.heap[key] = Term{S: term, Sort: fv.compSort[key]}
	fv.written[key] = true
}

func (fv *FV) initGhostFields(st *State, named *types.Named, r string) {}

func (fv *FV) evalAddrOf(st *State, x *ast.UnaryExpr) Term {
	switch y := x.X.(type) {
	case *ast.CompositeLit:
		return fv.evalCompositeLit(st, y, true)
	case *ast.IndexExpr:
		// &a[i]: pointer to a slice element
		a := fv.evalExpr(st, y.X)
		i := fv.toInt(fv.evalExpr(st, y.Index))
		fv.safety(st, "idx["+fv.src(y)+"]", and(app("<=", "0", i.S), app("<", i.S, "(slen "+a.S+")")), "index in range: "+fv.src(y), y.Pos())
		return fv.elemPtr(a, i)
	case *ast.SelectorExpr:
		// &p.f: pointer to a field (used for mutexes and embedded values): modelled as a field pointer
		if sel := fv.info.Selections[y]; sel != nil && sel.Kind() == types.FieldVal {
			if isUserByRef(fv.typeOf(y)) {
				// &p.f with f an embedded by-reference struct: the embedded object itself
				v := fv.evalSelector(st, y)
				return Term{S: v.S, Sort: sInt, T: fv.typeOf(x)}
			}
			base := fv.evalExpr(st, y.X)
			return fv.fieldPtr(st, base, y.Sel.Name, fv.typeOf(x))
		}
	case *ast.Ident:
		obj := fv.info.ObjectOf(y)
		if c, ok := st.vars[obj]; ok && isUserByRef(obj.Type()) {
			return Term{S: c.S, Sort: sInt, T: fv.typeOf(x)}
		}
		if c, ok := st.vars[obj]; ok && c.Sort == sInt && strings.HasPrefix(c.S, "cell") {
			return Term{S: c.S, Sort: sInt, T: fv.typeOf(x)}
		}
		if c, ok := st.vars[obj]; ok && strings.HasPrefix(c.Sort, "S_") && fv.inReturn > 0 {
			// `return &local` with a struct-valued local: the variable escapes when the function ends, so nothing
			// can write through it afterwards: a fresh object holding the variable's current value
			named, ut := structOf(obj.Type())
			if named != nil && ut != nil {
				r := fv.newRef(st, "new"+named.Obj().Name())
				for j := 0; j < ut.NumFields(); j++ {
					if isUserByRef(ut.Field(j).Type()) || isOpaqueStruct(ut.Field(j).Type()) {
						fv.fail(x.Pos(), "address of a local struct with embedded struct fields")
					}
					key, _ := fv.fieldComp(named, ut.Field(j))
					fv.heapSetNoFrame(st, key, sto(fv.heapGet(st, key), r, fmt.Sprintf("(%s_%s %s)", c.Sort, symName(ut.Field(j).Name()), c.S)))
				}
				fv.initGhostFields(st, named, r)
				return Term{S: r, Sort: sInt, T: fv.typeOf(x)}
			}
		}
	}
	fv.fail(x.Pos(), "unsupported address-of %s", fv.src(x))
	return Term{}
}

// element pointers are encoded as pairs (base, index) in a datatype.
func (fv *FV) elemPtr(a, i Term) Term {
	fv.declare("sort:ElemPtr", "(declare-datatypes ((ElemPtr 0)) (((mk-eptr (epbase Int) (epidx Int)))))")
	et := elemType(a.T)
	if et == nil {
		fv.sfail("pointer to an element of a non-slice")
	}
	return Term{S: fmt.Sprintf("(mk-eptr (sbase %s) %s)", a.S, elemAddr(a.S, i.S)), Sort: "ElemPtr", T: types.NewPointer(et), Room: app("-", "(slen "+a.S+")", i.S)}
}

func (fv *FV) fieldPtr(st *State, base Term, name string, t types.Type) Term {
	fv.fail(token.NoPos, "pointer to field %s", name)
	return Term{}
}

func (fv *FV) derefRead(st *State, p Term, pos token.Pos) Term {
	if p.Sort == "ElemPtr" && p.Word {
		// unsafe 64-bit load from a byte slice: the 8 adjacent bytes, little-endian (model of the word load: trusted)
		key, _ := fv.elemComp(types.Typ[types.Uint8])
		a := sel(fv.heapGet(st, key), "(epbase "+p.S+")")
		v := sel(a, app("+", "(epidx "+p.S+")", "7"))
		for k := 6; k >= 0; k-- {
			v = app("concat", v, sel(a, app("+", "(epidx "+p.S+")", fmt.Sprint(k))))
		}
		fv.assumptions["unsafe word access *(*uint64)(unsafe.Pointer(&data[i])) is modelled as the 8 adjacent bytes data[i..i+7] (little-endian), with the obligation i+8 <= len(data)"] = true
		return fv.nameTerm(st, "word", Term{S: v, Sort: sBV64, T: types.Typ[types.Uint64]})
	}
	if p.Sort == "ElemPtr" {
		et := p.T.Underlying().(*types.Pointer).Elem()
		key, _ := fv.elemComp(et)
		return Term{S: sel(sel(fv.heapGet(st, key), "(epbase "+p.S+")"), "(epidx "+p.S+")"), Sort: fv.sortOf(et), T: et}
	}
	if pt, ok := p.T.Underlying().(*types.Pointer); ok {
		if named, sty := structOf(pt.Elem()); sty != nil && named != nil {
			// *p for a struct pointer: build the struct value from its fields
			fv.safety(st, "nil[*]", not(eq(p.S, "0")), "nil dereference", pos)
			s := fv.sortOf(pt.Elem())
			var fs []string
			for i := 0; i < sty.NumFields(); i++ {
				key, _ := fv.fieldComp(named, sty.Field(i))
				fs = append(fs, sel(fv.heapGet(st, key), p.S))
			}
			if len(fs) == 0 {
				fs = []string{"0"}
			}
			return Term{S: "(mk-" + s + " " + strings.Join(fs, " ") + ")", Sort: s, T: pt.Elem()}
		}
		// pointer to a scalar cell
		et := pt.Elem()
		key := "P:" + fv.sortOf(et)
		fv.compSort[key] = arr(sInt, fv.sortOf(et))
		fv.safety(st, "nil[*]", not(eq(p.S, "0")), "nil dereference", pos)
		return Term{S: sel(fv.heapGet(st, key), p.S), Sort: fv.sortOf(et), T: et}
	}
	fv.fail(pos, "unsupported dereference")
	return Term{}
}

func (fv *FV) evalFuncLit(st *State, x *ast.FuncLit) Term {
	return fv.closureValue(st, x)
}

// copyStruct copies every field of the by-reference struct object src into dst (assignment of struct values).
func (fv *FV) copyStruct(st *State, dst, src string, t types.Type) {
	named, sty := structOf(t)
	if sty == nil || named == nil {
		fv.fail(token.NoPos, "copy of a non-struct %s", t)
	}
	for j := 0; j < sty.NumFields(); j++ {
		f := sty.Field(j)
		key, _ := fv.fieldComp(named, f)
		if isUserByRef(f.Type()) {
			fv.copyStruct(st, sel(fv.heapGet(st, key), dst), sel(fv.heapGet(st, key), src), f.Type())
			continue
		}
		fv.heapSet(st, key, sto(fv.heapGet(st, key), dst, sel(fv.heapGet(st, key), src)))
	}
	// ghost fields travel with the value
	if pc := fv.w.contracts[pkgPathOf(named.Obj())]; pc != nil {
		var names []string
		for k := range pc.GhostFlds {
			if strings.HasPrefix(k, named.Obj().Name()+".") {
				names = append(names, k[len(named.Obj().Name())+1:])
			}
		}
		sort.Strings(names)
		for _, gname := range names {
			d := fv.ghostFieldTerm(st, named, gname, pc.GhostFlds[named.Obj().Name()+"."+gname], Term{S: dst, Sort: sInt})
			sv := fv.ghostFieldTerm(st, named, gname, pc.GhostFlds[named.Obj().Name()+"."+gname], Term{S: src, Sort: sInt})
			_ = d
			key := "F:" + shortPkg(pkgPathOf(named.Obj())) + "." + named.Obj().Name() + "." + gname + "$ghost"
			fv.heapSet(st, key, sto(fv.heapGet(st, key), dst, sv.S))
		}
	}
}

// cloneStruct returns a fresh object equal to src (value semantics of a struct held by reference).
func (fv *FV) cloneStruct(st *State, src Term) Term {
	e := fv.allocZero(st, src.T, token.NoPos)
	fv.copyStruct(st, e.S, src.S, src.T)
	return Term{S: e.S, Sort: sInt, T: src.T}
}

// freshValueExpr: expressions whose by-reference struct result nobody else holds (a literal, a call result).
func freshValueExpr(e ast.Expr) bool {
	switch ast.Unparen(e).(type) {
	case *ast.CompositeLit, *ast.CallExpr:
		return true
	}
	return false
}
