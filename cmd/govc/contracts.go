package main

// Contract files: //@ directives → structured contracts.

import (
	"fmt"
	"os"
	"regexp"
	"strconv"
	"strings"
)

type Clause struct {
	Assumed bool // not an obligation of the function itself (checked by a bounded stand-in); used by callers
	Label string
	Tags  []string // property ids; empty = all properties of the function
	Expr  SExpr
	Src   string
}

type SpecParam struct{ Name, Type string }

type SpecFunc struct {
	Name    string
	Params  []SpecParam
	RetType string
	Body    SExpr // nil = uninterpreted
	IsPred  bool
	Pkg     *PkgContracts
	Opaque  bool
}

type Axiom struct {
	Name string
	Expr SExpr
	Src  string
	Pkg  *PkgContracts
}

type LoopSpec struct {
	Invariants []*Clause
	Decreases  SExpr
	DecSrc     string
	Modifies   []SExpr
}

type GhostStmt struct {
	Anchor string // "entry", "exit", "loop N head", "loop N end", `after "text"`
	LHS    SExpr  // nil for assert/assume
	RHS    SExpr
	Kind   string // "assign", "assert", "assume"
	Src    string
	Tags   []string
}

type FuncContract struct {
	Key       string // "Recv.Name" or "Name"
	Pkg       *PkgContracts
	Requires  []*Clause
	Ensures   []*Clause
	Modifies  []SExpr
	HasMod    bool
	PanicsWhen SExpr
	PanicsSrc string
	Decreases SExpr
	Roles     map[string]string // param name → role
	Ghost     []SpecParam
	GhostRet  []SpecParam // ghost results: locals of the callee, existential for callers
	GhostArgs map[string]map[string]SExpr // "callee#n" → ghost name → expr
	Loops     map[int]*LoopSpec
	Uses      []string
	Ghosts    []*GhostStmt
	Trusted   bool // body not verified: contract assumed at call sites
	TrustWhy  string
	Pure      bool
	// Seq: the function only returns a range function `func(NAME func(T) bool) { … }`; the contract describes one
	// invocation of that function (NAME has the role yield), with the parameters as they were when it was made
	Seq  string
	Line int
}

type Lemma struct {
	Trusted   bool
	Hints     []SExpr
	Name      string
	Params    []SpecParam
	InductOn  string
	Expr      SExpr
	Src       string
	Pkg       *PkgContracts
}

type GhostVar struct {
	Name string
	Type string
}

type PkgContracts struct {
	Path      string // import path
	Name      string
	File      string
	Imports   []string
	AbstractStrEq bool
	Specs     map[string]*SpecFunc
	Axioms    []*Axiom
	Lemmas    map[string]*Lemma
	Funcs     map[string]*FuncContract
	FieldRole map[string]string // "Type.field" → role
	GhostVars map[string]*GhostVar
	GhostFlds map[string]string // "Type.field" → type text
	Guards    map[string][]string // "Type" → fields guarded by the type's mutex
	LockField map[string]string   // "Type" → name of the mutex field
	Text      string
}

var reFuncRef = regexp.MustCompile(`^(?:\(\*?([A-Za-z_][A-Za-z0-9_]*)\)\.)?([A-Za-z_][A-Za-z0-9_]*)$`)

func parseParams(p *sparser) []SpecParam {
	var ps []SpecParam
	p.expect("(")
	for !p.isOp(")") {
		name := p.ident()
		start := p.peek().p
		depth := 0
		for {
			t := p.peek()
			if t.k == "eof" {
				panic(fmt.Errorf("unterminated parameter list in %q", p.src))
			}
			if depth == 0 && t.k == "op" && (t.s == "," || t.s == ")") {
				break
			}
			if t.k == "op" && (t.s == "[" || t.s == "(") {
				depth++
			}
			if t.k == "op" && (t.s == "]" || t.s == ")") {
				depth--
			}
			p.next()
		}
		ty := strings.TrimSpace(p.src[start:p.peek().p])
		ps = append(ps, SpecParam{name, ty})
		if !p.accept(",") {
			break
		}
	}
	p.expect(")")
	for i := len(ps) - 2; i >= 0; i-- {
		if ps[i].Type == "" {
			ps[i].Type = ps[i+1].Type
		}
	}
	return ps
}

// parseClause parses "[C05,C06] label: expr".
func parseClause(text string) (*Clause, error) {
	c := &Clause{Src: text}
	t := strings.TrimSpace(text)
	if strings.HasPrefix(t, "[") {
		end := strings.Index(t, "]")
		if end > 0 && regexp.MustCompile(`^\[C[0-9]+(\s*,\s*C[0-9]+)*\]`).MatchString(t) {
			for _, s := range strings.Split(t[1:end], ",") {
				c.Tags = append(c.Tags, strings.TrimSpace(s))
			}
			t = strings.TrimSpace(t[end+1:])
		}
	}
	if strings.HasPrefix(t, "[assumed]") {
		c.Assumed = true
		t = strings.TrimSpace(t[9:])
	}
	if m := regexp.MustCompile(`^([A-Za-z_][A-Za-z0-9_]*)\s*:([^:=].*|$)`).FindStringSubmatch(t); m != nil {
		c.Label = m[1]
		t = strings.TrimSpace(m[2])
	}
	e, err := parseSpecExpr(t)
	if err != nil {
		return nil, err
	}
	c.Expr = e
	return c, nil
}

func parseExprList(text string) ([]SExpr, error) {
	p, err := newParser(text)
	if err != nil {
		return nil, err
	}
	var out []SExpr
	var perr error
	func() {
		defer func() {
			if r := recover(); r != nil {
				if e, ok := r.(error); ok {
					perr = e
					return
				}
				panic(r)
			}
		}()
		for {
			out = append(out, p.expr())
			if !p.accept(",") {
				break
			}
		}
		if !p.atEOF() {
			panic(fmt.Errorf("trailing text in %q", text))
		}
	}()
	return out, perr
}

func parseContractFile(path string, importPath string) (*PkgContracts, error) {
	b, err := os.ReadFile(path)
	if err != nil {
		return nil, err
	}
	return parseContractText(string(b), path, importPath)
}

func parseContractText(text, path, importPath string) (pc *PkgContracts, err error) {
	pc = &PkgContracts{Path: importPath, File: path, Specs: map[string]*SpecFunc{}, Lemmas: map[string]*Lemma{},
		Funcs: map[string]*FuncContract{}, FieldRole: map[string]string{}, GhostVars: map[string]*GhostVar{}, GhostFlds: map[string]string{}, Guards: map[string][]string{}, LockField: map[string]string{}, Text: text}
	// gather directives with continuation
	type dir struct {
		text string
		line int
	}
	var dirs []dir
	for i, ln := range strings.Split(text, "\n") {
		t := strings.TrimSpace(ln)
		var body string
		switch {
		case strings.HasPrefix(t, "//@+"):
			if len(dirs) == 0 {
				return nil, fmt.Errorf("%s:%d: continuation without directive", path, i+1)
			}
			dirs[len(dirs)-1].text += " " + strings.TrimSpace(t[4:])
			continue
		case strings.HasPrefix(t, "//@"):
			body = t[3:]
		case strings.HasPrefix(t, "// @"):
			body = t[4:]
		default:
			if strings.HasPrefix(t, "package ") && pc.Name == "" {
				pc.Name = strings.TrimSpace(t[8:])
			}
			continue
		}
		// strip trailing comment "   // ..."
		if k := strings.Index(body, " // "); k >= 0 {
			body = body[:k]
		}
		body = strings.TrimSpace(body)
		if body == "" {
			dirs = append(dirs, dir{"", i + 1})
			continue
		}
		dirs = append(dirs, dir{body, i + 1})
	}
	var cur *FuncContract
	for _, d := range dirs {
		if d.text == "" {
			continue
		}
		fail := func(e error) error { return fmt.Errorf("%s:%d: %v", path, d.line, e) }
		word, rest := d.text, ""
		if k := strings.IndexAny(d.text, " \t"); k >= 0 {
			word, rest = d.text[:k], strings.TrimSpace(d.text[k+1:])
		}
		var perr error
		func() {
			defer func() {
				if r := recover(); r != nil {
					if e, ok := r.(error); ok {
						perr = e
						return
					}
					panic(r)
				}
			}()
			switch word {
			case "import":
				pc.Imports = append(pc.Imports, rest)
				cur = nil
			case "abstract":
				// abstract string equality: == on strings is equality of an uninterpreted content function (no byte-level
				// reasoning in this package); sound because the real content function is one of its interpretations
				if strings.TrimSpace(rest) == "string equality" {
					pc.AbstractStrEq = true
				} else {
					panic(fmt.Errorf("unknown abstraction %q", rest))
				}
				cur = nil
			case "byref":
				// byref TypeName, …: values of these struct types are heap objects identified with references (a
				// field of such a type is the object embedded in its owner; assignment copies field by field)
				for _, n := range strings.Split(rest, ",") {
					if n = strings.TrimSpace(n); n != "" {
						userByRef[importPath+"."+n] = true
					}
				}
				cur = nil
			case "spec", "pred":
				cur = nil
				opaque := false
				if strings.HasPrefix(rest, "opaque ") {
					opaque = true
					rest = strings.TrimSpace(rest[7:])
				}
				p, e := newParser(rest)
				if e != nil {
					panic(e)
				}
				sf := &SpecFunc{Name: p.ident(), IsPred: word == "pred", Pkg: pc, Opaque: opaque}
				sf.Params = parseParams(p)
				// return type: raw text until ":=" or eof
				start := p.peek().p
				for !p.atEOF() && !p.isOp(":=") {
					p.next()
				}
				sf.RetType = strings.TrimSpace(rest[start:p.peek().p])
				if sf.IsPred {
					sf.RetType = "bool"
				}
				if p.accept(":=") {
					sf.Body = p.expr()
					if !p.atEOF() {
						panic(fmt.Errorf("trailing text after spec body: %q", p.rest()))
					}
				}
				pc.Specs[sf.Name] = sf
			case "axiom":
				cur = nil
				k := strings.Index(rest, ":")
				if k < 0 {
					panic(fmt.Errorf("axiom needs a name"))
				}
				e, er := parseSpecExpr(rest[k+1:])
				if er != nil {
					panic(er)
				}
				pc.Axioms = append(pc.Axioms, &Axiom{Name: strings.TrimSpace(rest[:k]), Expr: e, Src: rest[k+1:], Pkg: pc})
			case "lemma":
				cur = nil
				p, e := newParser(rest)
				if e != nil {
					panic(e)
				}
				lm := &Lemma{Name: p.ident(), Pkg: pc}
				lm.Params = parseParams(p)
				if p.isID("by") {
					p.next()
					if p.ident() != "induction" || p.ident() != "on" {
						panic(fmt.Errorf("expected 'by induction on <var>'"))
					}
					lm.InductOn = p.ident()
					if p.isID("with") {
						p.next()
						for {
							lm.Hints = append(lm.Hints, p.expr())
							if !p.accept(",") {
								break
							}
						}
					}
				}
				if p.isID("trusted") {
					p.next()
					lm.Trusted = true
				}
				p.expect(":")
				lm.Src = p.rest()
				lm.Expr = p.expr()
				if !p.atEOF() {
					panic(fmt.Errorf("trailing text after lemma"))
				}
				pc.Lemmas[lm.Name] = lm
			case "ghost":
				if strings.HasPrefix(rest, "var ") {
					f := strings.Fields(rest[4:])
					if len(f) < 2 {
						panic(fmt.Errorf("ghost var NAME TYPE"))
					}
					pc.GhostVars[f[0]] = &GhostVar{f[0], strings.Join(f[1:], " ")}
					return
				}
				if strings.HasPrefix(rest, "field ") {
					f := strings.Fields(rest[6:])
					if len(f) < 2 {
						panic(fmt.Errorf("ghost field Type.name TYPE"))
					}
					pc.GhostFlds[f[0]] = strings.Join(f[1:], " ")
					return
				}
				if cur == nil {
					panic(fmt.Errorf("ghost parameter outside func block"))
				}
				p, e := newParser("(" + rest + ")")
				if e != nil {
					panic(e)
				}
				cur.Ghost = append(cur.Ghost, parseParams(p)...)
			case "lock":
				// lock Type.mu guards f1, f2, ...
				m := regexp.MustCompile(`^([A-Za-z_][A-Za-z0-9_]*)\.(\S+)\s+guards\s+(.*)$`).FindStringSubmatch(rest)
				if m == nil {
					panic(fmt.Errorf("lock Type.field guards f1, f2, …"))
				}
				pc.LockField[m[1]] = m[2]
				for _, f := range strings.Split(m[3], ",") {
					pc.Guards[m[1]] = append(pc.Guards[m[1]], strings.TrimSpace(f))
				}
				cur = nil
			case "role":
				f := strings.Fields(rest)
				if len(f) < 2 {
					panic(fmt.Errorf("role TARGET ROLE"))
				}
				role := strings.Join(f[1:], " ")
				if m := regexp.MustCompile(`^\(\*?([A-Za-z_][A-Za-z0-9_]*)\)\.([A-Za-z_][A-Za-z0-9_]*)$`).FindStringSubmatch(f[0]); m != nil {
					pc.FieldRole[m[1]+"."+m[2]] = role
					return
				}
				if cur == nil {
					panic(fmt.Errorf("parameter role outside func block"))
				}
				cur.Roles[f[0]] = role
			case "func":
				trusted, why := false, ""
				if k := strings.Index(rest, " trusted"); k >= 0 {
					trusted = true
					why = strings.TrimSpace(strings.TrimPrefix(rest[k+8:], ":"))
					rest = strings.TrimSpace(rest[:k])
				}
				m := reFuncRef.FindStringSubmatch(rest)
				if m == nil {
					panic(fmt.Errorf("bad func reference %q", rest))
				}
				key := m[2]
				if m[1] != "" {
					key = m[1] + "." + m[2]
				}
				if pc.Funcs[key] != nil {
					panic(fmt.Errorf("duplicate contract for %s", key))
				}
				cur = &FuncContract{Key: key, Pkg: pc, Roles: map[string]string{}, GhostArgs: map[string]map[string]SExpr{}, Loops: map[int]*LoopSpec{}, Trusted: trusted, TrustWhy: why, Line: d.line}
				pc.Funcs[key] = cur
			default:
				if cur == nil {
					panic(fmt.Errorf("clause %q outside func block", word))
				}
				switch word {
				case "requires":
					c, e := parseClause(rest)
					if e != nil {
						panic(e)
					}
					cur.Requires = append(cur.Requires, c)
				case "ensures":
					c, e := parseClause(rest)
					if e != nil {
						panic(e)
					}
					cur.Ensures = append(cur.Ensures, c)
				case "modifies":
					cur.HasMod = true
					if rest == "nothing" {
						return
					}
					l, e := parseExprList(rest)
					if e != nil {
						panic(e)
					}
					cur.Modifies = append(cur.Modifies, l...)
				case "panics":
					if !strings.HasPrefix(rest, "when ") {
						panic(fmt.Errorf("expected 'panics when'"))
					}
					e, er := parseSpecExpr(rest[5:])
					if er != nil {
						panic(er)
					}
					if cur.PanicsWhen != nil {
						cur.PanicsWhen = &SBin{"||", cur.PanicsWhen, e}
						cur.PanicsSrc += " || " + rest[5:]
					} else {
						cur.PanicsWhen = e
						cur.PanicsSrc = rest[5:]
					}
				case "decreases":
					e, er := parseSpecExpr(rest)
					if er != nil {
						panic(er)
					}
					cur.Decreases = e
				case "ghostret":
					p, e := newParser("(" + rest + ")")
					if e != nil {
						panic(e)
					}
					cur.GhostRet = append(cur.GhostRet, parseParams(p)...)
				case "pure":
					cur.Pure = true
				case "seq":
					cur.Seq = strings.TrimSpace(rest)
				case "uses":
					for _, u := range strings.Split(rest, ",") {
						cur.Uses = append(cur.Uses, strings.TrimSpace(u))
					}
				case "call":
					// call pushDown#1: L = i, M = j
					k := strings.Index(rest, ":")
					if k < 0 {
						panic(fmt.Errorf("call CALLEE#N: name = expr"))
					}
					site := strings.TrimSpace(rest[:k])
					if !strings.Contains(site, "#") {
						site += "#1"
					}
					args := map[string]SExpr{}
					p, e := newParser(rest[k+1:])
					if e != nil {
						panic(e)
					}
					for {
						name := p.ident()
						p.expect("=")
						args[name] = p.expr()
						if !p.accept(",") {
							break
						}
					}
					cur.GhostArgs[site] = args
				case "loop":
					k := strings.Index(rest, ":")
					if k < 0 {
						panic(fmt.Errorf("loop N: invariant|decreases expr"))
					}
					n, e := strconv.Atoi(strings.TrimSpace(rest[:k]))
					if e != nil {
						panic(e)
					}
					ls := cur.Loops[n]
					if ls == nil {
						ls = &LoopSpec{}
						cur.Loops[n] = ls
					}
					body := strings.TrimSpace(rest[k+1:])
					switch {
					case strings.HasPrefix(body, "invariant "):
						c, e := parseClause(body[10:])
						if e != nil {
							panic(e)
						}
						ls.Invariants = append(ls.Invariants, c)
					case strings.HasPrefix(body, "decreases "):
						ex, e := parseSpecExpr(body[10:])
						if e != nil {
							panic(e)
						}
						ls.Decreases = ex
						ls.DecSrc = body[10:]
					default:
						panic(fmt.Errorf("loop: expected invariant or decreases"))
					}
				case "at":
					// at ANCHOR: ghost x = e | assert e | assume e
					k := strings.Index(rest, ": ")
					if q := strings.Index(rest, "\""); q >= 0 && q < k {
						// the anchor quotes a statement, which may contain ": " itself
						if q2 := strings.Index(rest[q+1:], "\""); q2 >= 0 {
							if k2 := strings.Index(rest[q+1+q2:], ": "); k2 >= 0 {
								k = q + 1 + q2 + k2
							}
						}
					}
					if k < 0 {
						panic(fmt.Errorf("at ANCHOR: stmt"))
					}
					g := &GhostStmt{Anchor: strings.TrimSpace(rest[:k]), Src: rest}
					body := strings.TrimSpace(rest[k+2:])
					switch {
					case strings.HasPrefix(body, "assert "):
						g.Kind = "assert"
						cl, e := parseClause(body[7:])
						if e != nil {
							panic(e)
						}
						g.RHS = cl.Expr
						g.Tags = cl.Tags
					case strings.HasPrefix(body, "assume "):
						g.Kind = "assume"
						ex, e := parseSpecExpr(body[7:])
						if e != nil {
							panic(e)
						}
						g.RHS = ex
					case strings.HasPrefix(body, "apply "):
						g.Kind = "apply"
						cl, e := parseClause(body[6:])
						if e != nil {
							panic(e)
						}
						g.RHS = cl.Expr
						g.Tags = cl.Tags
					case strings.HasPrefix(body, "ghost "):
						g.Kind = "assign"
						p, e := newParser(body[6:])
						if e != nil {
							panic(e)
						}
						g.LHS = p.postfix()
						p.expect("=")
						g.RHS = p.expr()
						if !p.atEOF() {
							panic(fmt.Errorf("trailing text in ghost statement"))
						}
					default:
						panic(fmt.Errorf("at: expected ghost/assert/assume"))
					}
					cur.Ghosts = append(cur.Ghosts, g)
				default:
					panic(fmt.Errorf("unknown directive %q", word))
				}
			}
		}()
		if perr != nil {
			return nil, fail(perr)
		}
	}
	return pc, nil
}
