package main

// Lexer and parser for the contract expression language (DESIGN.md Appendix G):
// Go expression syntax plus old(), forall/exists, ==>, <==>, chained comparisons, result.N.

import (
	"fmt"
	"strconv"
	"strings"
)

type SExpr interface{}

type SIdent struct{ Name string }
type SInt struct{ V string }
type SChar struct{ V byte }
type SStr struct{ V string }
type SBool struct{ V bool }
type SBin struct {
	Op   string
	L, R SExpr
}
type SUn struct {
	Op string
	X  SExpr
}
type SCall struct {
	Fn   string
	Args []SExpr
}
type SField struct {
	X    SExpr
	Name string
}
type SIndex struct{ X, I SExpr }
type SSliceE struct{ X, Lo, Hi SExpr }
type SVar struct{ Name, Type string }
type SQuant struct {
	Lambda bool // lambda k int :: e — the ghost map k ↦ e
	Forall bool
	Vars   []SVar
	Trig   [][]SExpr
	Body   SExpr
}

type tok struct {
	k string // "id", "int", "char", "str", "op", "eof"
	s string
	p int
}

type lexer struct {
	src  string
	toks []tok
}

var ops3 = []string{"<==>", "==>", "&&", "||", "==", "!=", "<=", ">=", "<<", ">>", "&^", "::", ":=", "..", "<", ">", "+", "-", "*", "/", "%", "&", "|", "^", "!", ".", ",", "(", ")", "[", "]", "{", "}", ":", "#", "=", "@"}

func lex(src string) ([]tok, error) {
	var out []tok
	i := 0
	for i < len(src) {
		c := src[i]
		switch {
		case c == ' ' || c == '\t' || c == '\n' || c == '\r':
			i++
		case c == '_' || (c >= 'a' && c <= 'z') || (c >= 'A' && c <= 'Z') || c >= 0x80:
			// bytes >= 0x80 belong to a multi-byte rune: Go identifiers may contain any Unicode letter (stree's β)
			j := i
			for j < len(src) && (src[j] == '_' || (src[j] >= 'a' && src[j] <= 'z') || (src[j] >= 'A' && src[j] <= 'Z') || (src[j] >= '0' && src[j] <= '9') || src[j] >= 0x80) {
				j++
			}
			out = append(out, tok{"id", src[i:j], i})
			i = j
		case c >= '0' && c <= '9':
			j := i
			for j < len(src) && ((src[j] >= '0' && src[j] <= '9') || (src[j] >= 'a' && src[j] <= 'f') || (src[j] >= 'A' && src[j] <= 'F') || src[j] == 'x' || src[j] == 'X' || src[j] == '_') {
				j++
			}
			v, err := strconv.ParseUint(strings.ReplaceAll(src[i:j], "_", ""), 0, 64)
			if err != nil {
				return nil, fmt.Errorf("bad number %q", src[i:j])
			}
			out = append(out, tok{"int", strconv.FormatUint(v, 10), i})
			i = j
		case c == '\'':
			j := i + 1
			for j < len(src) && src[j] != '\'' {
				if src[j] == '\\' {
					j++
				}
				j++
			}
			if j >= len(src) {
				return nil, fmt.Errorf("unterminated char literal")
			}
			r, _, _, err := strconv.UnquoteChar(src[i+1:j], '\'')
			if err != nil {
				return nil, fmt.Errorf("bad char literal %q", src[i:j+1])
			}
			out = append(out, tok{"char", string([]byte{byte(r)}), i})
			i = j + 1
		case c == '"':
			j := i + 1
			for j < len(src) && src[j] != '"' {
				if src[j] == '\\' {
					j++
				}
				j++
			}
			if j >= len(src) {
				return nil, fmt.Errorf("unterminated string literal")
			}
			s, err := strconv.Unquote(src[i : j+1])
			if err != nil {
				return nil, fmt.Errorf("bad string literal %s", src[i:j+1])
			}
			out = append(out, tok{"str", s, i})
			i = j + 1
		default:
			found := false
			for _, o := range ops3 {
				if strings.HasPrefix(src[i:], o) {
					out = append(out, tok{"op", o, i})
					i += len(o)
					found = true
					break
				}
			}
			if !found {
				return nil, fmt.Errorf("unexpected character %q at %d in %q", c, i, src)
			}
		}
	}
	out = append(out, tok{"eof", "", len(src)})
	return out, nil
}

type sparser struct {
	src  string
	toks []tok
	pos  int
}

func newParser(src string) (*sparser, error) {
	t, err := lex(src)
	if err != nil {
		return nil, err
	}
	return &sparser{src: src, toks: t}, nil
}

func (p *sparser) peek() tok { return p.toks[p.pos] }
func (p *sparser) next() tok { t := p.toks[p.pos]; p.pos++; return t }
func (p *sparser) isOp(s string) bool {
	t := p.peek()
	return t.k == "op" && t.s == s
}
func (p *sparser) isID(s string) bool {
	t := p.peek()
	return t.k == "id" && t.s == s
}
func (p *sparser) accept(s string) bool {
	if p.isOp(s) {
		p.pos++
		return true
	}
	return false
}
func (p *sparser) expect(s string) {
	if !p.accept(s) {
		panic(fmt.Errorf("expected %q at %d (near %q) in %q", s, p.peek().p, p.peek().s, p.src))
	}
}
func (p *sparser) ident() string {
	t := p.next()
	if t.k != "id" {
		panic(fmt.Errorf("expected identifier at %d (got %q) in %q", t.p, t.s, p.src))
	}
	return t.s
}
func (p *sparser) atEOF() bool { return p.peek().k == "eof" }

// rest returns the remaining source text from the current token.
func (p *sparser) rest() string { return strings.TrimSpace(p.src[p.peek().p:]) }

func parseSpecExpr(src string) (e SExpr, err error) {
	defer func() {
		if r := recover(); r != nil {
			if er, ok := r.(error); ok {
				err = er
				return
			}
			panic(r)
		}
	}()
	p, err := newParser(src)
	if err != nil {
		return nil, err
	}
	e = p.expr()
	if !p.atEOF() {
		return nil, fmt.Errorf("trailing text at %d (%q) in %q", p.peek().p, p.peek().s, src)
	}
	return e, nil
}

func (p *sparser) expr() SExpr { return p.iff() }

func (p *sparser) iff() SExpr {
	l := p.implies()
	for p.accept("<==>") {
		r := p.implies()
		l = &SBin{"<==>", l, r}
	}
	return l
}

func (p *sparser) implies() SExpr {
	l := p.or()
	if p.accept("==>") {
		r := p.implies()
		return &SBin{"==>", l, r}
	}
	return l
}

func (p *sparser) or() SExpr {
	l := p.and()
	for p.accept("||") {
		r := p.and()
		l = &SBin{"||", l, r}
	}
	return l
}

func (p *sparser) and() SExpr {
	l := p.cmp()
	for p.accept("&&") {
		r := p.cmp()
		l = &SBin{"&&", l, r}
	}
	return l
}

func isCmpOp(s string) bool {
	switch s {
	case "==", "!=", "<", "<=", ">", ">=":
		return true
	}
	return false
}

func (p *sparser) cmp() SExpr {
	if p.isID("forall") || p.isID("exists") || p.isID("lambda") {
		return p.quant()
	}
	l := p.add()
	var res SExpr
	for p.peek().k == "op" && isCmpOp(p.peek().s) {
		op := p.next().s
		r := p.add()
		c := &SBin{op, l, r}
		if res == nil {
			res = c
		} else {
			res = &SBin{"&&", res, c}
		}
		l = r
	}
	if p.isID("in") {
		p.next()
		r := p.add()
		return &SCall{"in", []SExpr{l, r}}
	}
	if res == nil {
		return l
	}
	return res
}

func (p *sparser) quant() SExpr {
	kw := p.next().s
	q := &SQuant{Forall: kw == "forall", Lambda: kw == "lambda"}
	for {
		name := p.ident()
		// type: raw text up to ',' or '::' at depth 0
		start := p.peek().p
		depth := 0
		for {
			t := p.peek()
			if t.k == "eof" {
				panic(fmt.Errorf("unterminated quantifier in %q", p.src))
			}
			if depth == 0 && t.k == "op" && (t.s == "," || t.s == "::") {
				break
			}
			if t.k == "op" && (t.s == "[" || t.s == "(") {
				depth++
			}
			if t.k == "op" && (t.s == "]" || t.s == ")") {
				depth--
			}
			p.next()
		}
		ty := strings.TrimSpace(p.src[start:p.peek().p])
		q.Vars = append(q.Vars, SVar{name, ty})
		if p.accept(",") {
			continue
		}
		p.expect("::")
		break
	}
	// types may be omitted on all but the last variable of a group: "a, b int"
	for i := len(q.Vars) - 2; i >= 0; i-- {
		if q.Vars[i].Type == "" {
			q.Vars[i].Type = q.Vars[i+1].Type
		}
	}
	for p.isOp("{") {
		p.next()
		var tr []SExpr
		for {
			tr = append(tr, p.cmp())
			if !p.accept(",") {
				break
			}
		}
		p.expect("}")
		q.Trig = append(q.Trig, tr)
	}
	q.Body = p.expr()
	return q
}

func (p *sparser) add() SExpr {
	l := p.mul()
	for p.peek().k == "op" && (p.peek().s == "+" || p.peek().s == "-" || p.peek().s == "|" || p.peek().s == "^") {
		op := p.next().s
		r := p.mul()
		l = &SBin{op, l, r}
	}
	return l
}

func (p *sparser) mul() SExpr {
	l := p.unary()
	for p.peek().k == "op" {
		s := p.peek().s
		if s == "*" || s == "/" || s == "%" || s == "&" || s == "<<" || s == ">>" || s == "&^" {
			p.next()
			r := p.unary()
			l = &SBin{s, l, r}
			continue
		}
		break
	}
	return l
}

func (p *sparser) unary() SExpr {
	if p.accept("!") {
		return &SUn{"!", p.unary()}
	}
	if p.accept("-") {
		return &SUn{"-", p.unary()}
	}
	return p.postfix()
}

func (p *sparser) postfix() SExpr {
	x := p.primary()
	for {
		switch {
		case p.accept("."):
			t := p.next()
			if t.k != "id" && t.k != "int" {
				panic(fmt.Errorf("expected field name after '.' in %q", p.src))
			}
			x = &SField{x, t.s}
		case p.isOp("["):
			p.next()
			var lo, hi SExpr
			if p.isOp(":") {
				p.next()
				if !p.isOp("]") {
					hi = p.expr()
				}
				p.expect("]")
				x = &SSliceE{x, nil, hi}
				continue
			}
			lo = p.expr()
			if p.accept(":") {
				if !p.isOp("]") {
					hi = p.expr()
				}
				p.expect("]")
				x = &SSliceE{x, lo, hi}
				continue
			}
			p.expect("]")
			x = &SIndex{x, lo}
		default:
			return x
		}
	}
}

func (p *sparser) primary() SExpr {
	t := p.next()
	switch t.k {
	case "int":
		return &SInt{t.s}
	case "char":
		return &SChar{t.s[0]}
	case "str":
		return &SStr{t.s}
	case "id":
		if t.s == "true" {
			return &SBool{true}
		}
		if t.s == "false" {
			return &SBool{false}
		}
		if t.s == "forall" || t.s == "exists" || t.s == "lambda" {
			p.pos--
			return p.quant()
		}
		if p.isOp("(") {
			p.next()
			var args []SExpr
			if !p.isOp(")") {
				for {
					args = append(args, p.expr())
					if !p.accept(",") {
						break
					}
				}
			}
			p.expect(")")
			return &SCall{t.s, args}
		}
		return &SIdent{t.s}
	case "op":
		if t.s == "(" {
			e := p.expr()
			p.expect(")")
			return e
		}
	}
	panic(fmt.Errorf("unexpected token %q at %d in %q", t.s, t.p, p.src))
}

func specString(e SExpr) string {
	switch x := e.(type) {
	case *SIdent:
		return x.Name
	case *SInt:
		return x.V
	case *SChar:
		return strconv.QuoteRune(rune(x.V))
	case *SStr:
		return strconv.Quote(x.V)
	case *SBool:
		return fmt.Sprint(x.V)
	case *SBin:
		return "(" + specString(x.L) + " " + x.Op + " " + specString(x.R) + ")"
	case *SUn:
		return x.Op + specString(x.X)
	case *SCall:
		var a []string
		for _, y := range x.Args {
			a = append(a, specString(y))
		}
		return x.Fn + "(" + strings.Join(a, ", ") + ")"
	case *SField:
		return specString(x.X) + "." + x.Name
	case *SIndex:
		return specString(x.X) + "[" + specString(x.I) + "]"
	case *SSliceE:
		lo, hi := "", ""
		if x.Lo != nil {
			lo = specString(x.Lo)
		}
		if x.Hi != nil {
			hi = specString(x.Hi)
		}
		return specString(x.X) + "[" + lo + ":" + hi + "]"
	case *SQuant:
		k := "exists"
		if x.Forall {
			k = "forall"
		}
		var vs []string
		for _, v := range x.Vars {
			vs = append(vs, v.Name+" "+v.Type)
		}
		return "(" + k + " " + strings.Join(vs, ", ") + " :: " + specString(x.Body) + ")"
	}
	return fmt.Sprintf("<%T>", e)
}
