package main

// Compilation of contract clauses to Go, for replaying a counterexample on the real code: the generated test
// calls the real function on the model's entry state and evaluates the postconditions. Only a conservative
// subset is compiled (anything else makes the clause "not compiled", never "violated"): quantifiers only in
// positive positions, `forall` over integer ranges, `exists` may only confirm, never refute.

import (
	"fmt"
	"go/types"
	"strings"
)

type goGen struct {
	fv      *FV
	names   map[string]string // spec name → Go expression (current state)
	oldN    map[string]string // spec name → Go expression (snapshot taken before the call)
	results []string
	inOld   bool
	pc      *PkgContracts
	depth   int
	nvar    int
	bad     string
}

func (g *goGen) fail(format string, args ...interface{}) string {
	if g.bad == "" {
		g.bad = fmt.Sprintf(format, args...)
	}
	return "false"
}

func (g *goGen) sub() *goGen {
	n := *g
	n.names = map[string]string{}
	n.oldN = map[string]string{}
	for k, v := range g.names {
		n.names[k] = v
	}
	for k, v := range g.oldN {
		n.oldN[k] = v
	}
	return &n
}

func (g *goGen) lookup(name string) (string, bool) {
	if g.inOld {
		if v, ok := g.oldN[name]; ok {
			return v, true
		}
	}
	v, ok := g.names[name]
	return v, ok
}

// expr compiles a value expression. positive tells whether a quantifier would be in a positive position.
func (g *goGen) expr(e SExpr, positive bool) string {
	if g.bad != "" {
		return "false"
	}
	switch x := e.(type) {
	case *SInt:
		return x.V
	case *SBool:
		return fmt.Sprint(x.V)
	case *SChar:
		return fmt.Sprintf("byte(%d)", x.V)
	case *SIdent:
		switch x.Name {
		case "nil":
			return "nil"
		case "result":
			if len(g.results) == 1 {
				return g.results[0]
			}
			return g.fail("result of a multi-result function")
		}
		if v, ok := g.lookup(x.Name); ok {
			return v
		}
		if obj := g.fv.pkg.Scope().Lookup(x.Name); obj != nil {
			switch obj.(type) {
			case *types.Const, *types.Var, *types.Func:
				return x.Name // a package-level name of the package under test (the replay is an in-package test)
			}
		}
		return g.fail("name %s", x.Name)
	case *SUn:
		if x.Op == "!" {
			return "!(" + g.expr(x.X, false) + ")"
		}
		return "-(" + g.expr(x.X, false) + ")"
	case *SBin:
		switch x.Op {
		case "&&":
			return "(" + g.expr(x.L, positive) + " && " + g.expr(x.R, positive) + ")"
		case "||":
			return "(" + g.expr(x.L, false) + " || " + g.expr(x.R, false) + ")"
		case "==>":
			return "(!(" + g.expr(x.L, false) + ") || " + g.expr(x.R, positive) + ")"
		case "<==>":
			return "((" + g.expr(x.L, false) + ") == (" + g.expr(x.R, false) + "))"
		case "==", "!=":
			if id, ok := x.R.(*SIdent); ok && id.Name == "zero" {
				s := "govcIsZero(" + g.expr(x.L, false) + ")"
				if x.Op == "!=" {
					s = "!" + s
				}
				return s
			}
			if id, ok := x.R.(*SIdent); ok && id.Name == "nil" {
				s := "govcIsNil(" + g.expr(x.L, false) + ")"
				if x.Op == "!=" {
					s = "!" + s
				}
				return s
			}
			s := "govcEq(" + g.expr(x.L, false) + ", " + g.expr(x.R, false) + ")"
			if x.Op == "!=" {
				s = "!" + s
			}
			return s
		case "<", "<=", ">", ">=", "+", "-", "*", "/", "%", "&", "|", "^", "<<", ">>", "&^":
			return "(" + g.expr(x.L, false) + " " + x.Op + " " + g.expr(x.R, false) + ")"
		}
	case *SField:
		if id, ok := x.X.(*SIdent); ok && id.Name == "result" {
			var n int
			if _, err := fmt.Sscanf(x.Name, "%d", &n); err == nil && n < len(g.results) {
				return g.results[n]
			}
		}
		switch x.Name {
		case "base":
			return "0"
		case "off":
			return "govcAddr(" + g.expr(x.X, false) + ")"
		}
		return g.expr(x.X, false) + "." + x.Name
	case *SIndex:
		return g.expr(x.X, false) + "[" + g.expr(x.I, false) + "]"
	case *SSliceE:
		lo, hi := "", ""
		if x.Lo != nil {
			lo = g.expr(x.Lo, false)
		}
		if x.Hi != nil {
			hi = g.expr(x.Hi, false)
		}
		return g.expr(x.X, false) + "[" + lo + ":" + hi + "]"
	case *SQuant:
		if !positive {
			return g.fail("quantifier in a non-positive position")
		}
		return g.quant(x)
	case *SCall:
		return g.call(x, positive)
	}
	return g.fail("expression %s", specString(e))
}

func (g *goGen) quant(q *SQuant) string {
	if len(q.Vars) > 2 {
		return g.fail("quantifier over more than two variables")
	}
	for _, v := range q.Vars {
		if strings.TrimSpace(v.Type) != "int" {
			return g.fail("quantifier over %s", v.Type)
		}
	}
	n := g.sub()
	var vars []string
	for _, v := range q.Vars {
		g.nvar++
		gv := fmt.Sprintf("%s_%d", v.Name, g.nvar)
		n.names[v.Name] = gv
		n.oldN[v.Name] = gv
		vars = append(vars, gv)
	}
	n.nvar = g.nvar
	body := n.expr(q.Body, q.Forall)
	g.nvar = n.nvar
	if n.bad != "" {
		g.bad = n.bad
		return "false"
	}
	// ranges: a fixed window wide enough for the small models used in replays
	var b strings.Builder
	if q.Forall {
		b.WriteString("func() bool { ")
		for _, v := range vars {
			fmt.Fprintf(&b, "for %s := -3; %s < 70; %s++ { ", v, v, v)
		}
		fmt.Fprintf(&b, "if !govcTry(func() bool { return %s }) { return false } ", body)
		for range vars {
			b.WriteString("} ")
		}
		b.WriteString("; return true }()")
		return b.String()
	}
	// exists: may only confirm (not finding a witness in the window proves nothing)
	b.WriteString("func() bool { ")
	for _, v := range vars {
		fmt.Fprintf(&b, "for %s := -3; %s < 70; %s++ { ", v, v, v)
	}
	fmt.Fprintf(&b, "if govcTryFalse(func() bool { return %s }) { return true } ", body)
	for range vars {
		b.WriteString("} ")
	}
	b.WriteString("; govcUnsure = true; return true }()")
	return b.String()
}

func (g *goGen) call(c *SCall, positive bool) string {
	arg := func(i int) string { return g.expr(c.Args[i], false) }
	switch c.Fn {
	case "old":
		n := *g
		n.inOld = true
		s := n.expr(c.Args[0], positive)
		if n.bad != "" {
			g.bad = n.bad
		}
		g.nvar = n.nvar
		return s
	case "len":
		return "len(" + arg(0) + ")"
	case "cap":
		return "cap(" + arg(0) + ")"
	case "ite":
		return "govcIte(" + g.expr(c.Args[0], false) + ", " + arg(1) + ", " + arg(2) + ")"
	case "min":
		return "min(" + arg(0) + ", " + arg(1) + ")"
	case "max":
		return "max(" + arg(0) + ", " + arg(1) + ")"
	case "fresh", "allocated", "old_arrays_unchanged", "other_arrays_unchanged", "old_maps_unchanged", "unchanged_outside":
		return "true" // not observable from Go: never refutes
	case "ord":
		return arg(0) + "(" + arg(1) + ", " + arg(2) + ")"
	case "holds":
		return arg(0) + "(" + arg(1) + ")"
	case "ediv":
		return "govcEdiv(" + arg(0) + ", " + arg(1) + ")"
	case "emod":
		return "govcEmod(" + arg(0) + ", " + arg(1) + ")"
	case "backing":
		return "(" + arg(0) + ")[:cap(" + arg(0) + ")][" + arg(1) + "]"
	case "bag":
		if len(c.Args) == 1 {
			return "govcBag(" + arg(0) + ")"
		}
		return "govcBag((" + arg(0) + ")[" + arg(1) + ":" + arg(2) + "])"
	case "bagadd":
		return "govcBagAdd(" + arg(0) + ", " + arg(1) + ")"
	case "unchanged":
		var cs []string
		for _, a := range c.Args {
			if cc, ok := a.(*SCall); ok && cc.Fn == "elems" {
				n := *g
				n.inOld = true
				cs = append(cs, "govcSameElems("+g.expr(cc.Args[0], false)+", "+n.expr(cc.Args[0], false)+")")
				continue
			}
			n := *g
			n.inOld = true
			cs = append(cs, "govcEq("+g.expr(a, false)+", "+n.expr(a, false)+")")
		}
		return "(" + strings.Join(cs, " && ") + ")"
	case "in":
		return "govcHas(" + arg(1) + ", " + arg(0) + ")"
	case "elemptr":
		return "&(" + arg(0) + ")[" + arg(1) + "]"
	case "ncalls", "callarg", "callret", "isnil", "dom", "card", "deref", "oldelem", "cmp3", "upd", "setadd", "setdel", "emptyset", "load64":
		return g.fail("builtin %s is not compiled", c.Fn)
	}
	// user spec function / predicate: macro expansion
	env := &Env{fv: g.fv, pc: g.pc}
	sf := g.fv.lookupSpecFunc(env, c.Fn)
	if sf == nil || sf.Body == nil || len(sf.Params) != len(c.Args) || g.depth > 20 {
		return g.fail("spec function %s is not compiled", c.Fn)
	}
	n := g.sub()
	n.depth = g.depth + 1
	n.pc = sf.Pkg
	n.names = map[string]string{}
	n.oldN = map[string]string{}
	// arguments are compiled in the caller's context, for both states
	for i, p := range sf.Params {
		cur := g.expr(c.Args[i], false)
		o := *g
		o.inOld = true
		old := o.expr(c.Args[i], false)
		if o.bad != "" && g.bad == "" {
			old = cur
		}
		n.names[p.Name] = "(" + cur + ")"
		n.oldN[p.Name] = "(" + old + ")"
	}
	n.inOld = g.inOld
	n.nvar = g.nvar
	s := n.expr(sf.Body, positive)
	g.nvar = n.nvar
	if n.bad != "" {
		g.bad = n.bad
	}
	return "(" + s + ")"
}

const goReplaySupport = `
var govcUnsure bool

func govcTry(f func() bool) (ok bool) {
	defer func() {
		if recover() != nil {
			ok = true
		}
	}()
	return f()
}

func govcTryFalse(f func() bool) (ok bool) {
	defer func() {
		if recover() != nil {
			ok = false
		}
	}()
	return f()
}

func govcIte[T any](c bool, a, b T) T {
	if c {
		return a
	}
	return b
}

func govcIsZero(x any) bool {
	if x == nil {
		return true
	}
	return reflect.ValueOf(x).IsZero()
}

func govcIsNil(x any) bool {
	if x == nil {
		return true
	}
	v := reflect.ValueOf(x)
	switch v.Kind() {
	case reflect.Slice, reflect.Map, reflect.Pointer, reflect.Func, reflect.Interface, reflect.Chan:
		return v.IsNil()
	}
	return false
}

func govcAddr(s any) int {
	v := reflect.ValueOf(s)
	if v.Kind() != reflect.Slice || v.Cap() == 0 {
		return 0
	}
	sz := int(v.Type().Elem().Size())
	if sz == 0 {
		sz = 1
	}
	return int(v.Pointer()) / sz
}

func govcEq(a, b any) bool {
	va, vb := reflect.ValueOf(a), reflect.ValueOf(b)
	if !va.IsValid() || !vb.IsValid() {
		return govcIsNil(a) && govcIsNil(b)
	}
	if va.Kind() == reflect.Slice && vb.Kind() == reflect.Slice {
		if va.IsNil() || vb.IsNil() {
			return va.IsNil() == vb.IsNil()
		}
		return va.Len() == vb.Len() && va.Cap() == vb.Cap() && (va.Cap() == 0 || va.Pointer() == vb.Pointer())
	}
	if va.Kind() == reflect.Map && vb.Kind() == reflect.Map {
		if va.Type().Key().Kind() == reflect.Int && va.Type().Elem().Kind() == reflect.Int {
			// multisets
			ma, mb := a.(map[int]int), b.(map[int]int)
			for k, n := range ma {
				if mb[k] != n {
					return false
				}
			}
			for k, n := range mb {
				if ma[k] != n {
					return false
				}
			}
			return true
		}
		return va.Pointer() == vb.Pointer()
	}
	if va.Kind() == reflect.Func || vb.Kind() == reflect.Func {
		return true // not comparable: never refutes
	}
	if va.Kind() != vb.Kind() && va.CanInt() && vb.CanInt() {
		return va.Int() == vb.Int()
	}
	return reflect.DeepEqual(a, b) || (va.Comparable() && vb.Comparable() && va.Type() == vb.Type() && va.Interface() == vb.Interface())
}

func govcSameElems(now, old any) bool {
	vn, vo := reflect.ValueOf(now), reflect.ValueOf(old)
	n := vo.Len()
	if vn.Len() < n {
		n = vn.Len()
	}
	for i := 0; i < n; i++ {
		if !reflect.DeepEqual(vn.Index(i).Interface(), vo.Index(i).Interface()) {
			return false
		}
	}
	return true
}

func govcBag(s []int) map[int]int {
	m := map[int]int{}
	for _, v := range s {
		m[v]++
	}
	return m
}

func govcBagAdd(m map[int]int, v int) map[int]int {
	n := map[int]int{}
	for k, c := range m {
		n[k] = c
	}
	n[v]++
	return n
}

func govcHas(m any, k any) bool {
	v := reflect.ValueOf(m)
	if v.Kind() != reflect.Map || v.IsNil() {
		return false
	}
	return v.MapIndex(reflect.ValueOf(k)).IsValid()
}

func govcEdiv(a, b int) int {
	q := a / b
	if a%b < 0 {
		if b > 0 {
			q--
		} else {
			q++
		}
	}
	return q
}

func govcEmod(a, b int) int { return a - b*govcEdiv(a, b) }

// govcCopy makes a deep copy of the entry state for old(...): slices keep their length and capacity, pointers to
// structs are copied recursively (unexported fields included), functions are shared.
func govcCopy[T any](x T) T {
	memo := map[uintptr]reflect.Value{}
	v := reflect.ValueOf(&x).Elem()
	out := reflect.New(v.Type()).Elem()
	govcCopyInto(out, v, memo)
	return out.Interface().(T)
}

func govcCopyInto(dst, src reflect.Value, memo map[uintptr]reflect.Value) {
	if !src.CanInterface() {
		src = reflect.NewAt(src.Type(), unsafe.Pointer(src.UnsafeAddr())).Elem()
	}
	if !dst.CanSet() {
		dst = reflect.NewAt(dst.Type(), unsafe.Pointer(dst.UnsafeAddr())).Elem()
	}
	switch src.Kind() {
	case reflect.Pointer:
		if src.IsNil() {
			return
		}
		if p, ok := memo[src.Pointer()]; ok {
			dst.Set(p)
			return
		}
		n := reflect.New(src.Type().Elem())
		memo[src.Pointer()] = n
		govcCopyInto(n.Elem(), src.Elem(), memo)
		dst.Set(n)
	case reflect.Slice:
		if src.IsNil() {
			return
		}
		full := src.Slice3(0, src.Cap(), src.Cap())
		n := reflect.MakeSlice(src.Type(), src.Cap(), src.Cap())
		for i := 0; i < full.Len(); i++ {
			govcCopyInto(n.Index(i), full.Index(i), memo)
		}
		dst.Set(n.Slice3(0, src.Len(), src.Cap()))
	case reflect.Struct:
		for i := 0; i < src.NumField(); i++ {
			govcCopyInto(dst.Field(i), src.Field(i), memo)
		}
	case reflect.Map:
		if src.IsNil() {
			return
		}
		n := reflect.MakeMapWithSize(src.Type(), src.Len())
		it := src.MapRange()
		for it.Next() {
			n.SetMapIndex(it.Key(), it.Value())
		}
		dst.Set(n)
	default:
		dst.Set(src)
	}
}
`

// compileEnsures returns Go statements that check the function's postconditions (those of the current contract
// slice); each failing clause reports VIOLATION-CONFIRMED. names maps parameter names to the Go variables of the test.
func (fv *FV) compileEnsures(cur, old map[string]string, results []string) (code string, compiled, skipped []string) {
	if fv.fc == nil {
		return "", nil, nil
	}
	var b strings.Builder
	for i, e := range fv.fc.Ensures {
		if !fv.tagOK(e.Tags) || e.Assumed {
			continue
		}
		lbl := e.Label
		if lbl == "" {
			lbl = fmt.Sprint(i + 1)
		}
		g := &goGen{fv: fv, names: cur, oldN: old, results: results, pc: fv.pc}
		s := g.expr(e.Expr, true)
		if g.bad != "" {
			skipped = append(skipped, lbl+" ("+g.bad+")")
			continue
		}
		compiled = append(compiled, lbl)
		fmt.Fprintf(&b, "\tgovcUnsure = false\n\tif !govcTry(func() bool { return %s }) {\n\t\tt.Fatalf(\"VIOLATION-CONFIRMED postcondition `%s` does not hold: %%s\", %q)\n\t}\n", s, lbl, strings.TrimSpace(e.Src))
	}
	return b.String(), compiled, skipped
}

var _ = types.Typ
