package main

// Counterexample pipeline: model extraction, concretisation, replay on the real code.

import (
	"context"
	"os"
	"path/filepath"
	"strings"
	"time"
)

// getModel re-runs the (region-restricted) query with get-model on z3-new, then z3.
func getModel(scratch string, o *Obligation, extra string) (string, string) {
	q := o.CexQuery
	if q == "" {
		q = o.Query
	}
	q = strings.Replace(q, "(check-sat)\n", extra+"(check-sat)\n(get-model)\n", 1)
	file := filepath.Join(scratch, sanitize(o.Name)+".model.smt2")
	os.WriteFile(file, []byte(q), 0o644)
	for _, sd := range solvers[:2] {
		st, out, _ := runOne(context.Background(), sd, file, 10*time.Second)
		if st == "sat" {
			return out, sd.name
		}
	}
	return "", ""
}

func counterexample(w *World, fv *FV, o *Obligation, scratch string, info map[string]interface{}) bool {
	model, solver := getModel(scratch, o, "")
	if model == "" {
		return false
	}
	info["model_solver"] = solver
	info["status"] = "model-not-replayed"
	return replayModel(w, fv, o, scratch, model, info)
}

func replayModel(w *World, fv *FV, o *Obligation, scratch, model string, info map[string]interface{}) bool {
	info["model"] = firstLines(model, 400)
	return false
}
