package main

// Counterexample pipeline: model extraction (interactive z3 session), concretisation of the function's
// entry state as Go values, replay on the real code through `go test -overlay`.

import (
	"bufio"
	"encoding/json"
	"fmt"
	"go/ast"
	"go/types"
	"io"
	"os"
	"os/exec"
	"path/filepath"
	"regexp"
	"sort"
	"strconv"
	"strings"
	"time"
)

// concreteQuery rewrites a query for counterexample extraction: type parameters become Int and
// comparison callbacks the natural order on Int (DESIGN.md Appendix E, "concrete" mode).
func concreteQuery(q string) string {
	var out []string
	reSort := regexp.MustCompile(`^\(declare-sort (T_[A-Za-z0-9_]+) 0\)$`)
	reOrd := regexp.MustCompile(`^\(declare-fun (ord\$T_[A-Za-z0-9_]+) \(Int (T_[A-Za-z0-9_]+) `)
	reZero := regexp.MustCompile(`^\(declare-const (zero\$T_[A-Za-z0-9_]+) `)
	skipOrd := map[string]bool{}
	for _, ln := range strings.Split(q, "\n") {
		if m := reSort.FindStringSubmatch(ln); m != nil {
			out = append(out, fmt.Sprintf("(define-sort %s () Int)", m[1]))
			continue
		}
		if m := reOrd.FindStringSubmatch(ln); m != nil {
			out = append(out, fmt.Sprintf("(define-fun %s ((f Int) (a Int) (b Int)) Int (ite (< a b) (- 1) (ite (> a b) 1 0)))", m[1]))
			skipOrd[m[1]] = true
			continue
		}
		if m := reZero.FindStringSubmatch(ln); m != nil {
			out = append(out, ln, fmt.Sprintf("(assert (= %s 0))", m[1]))
			continue
		}
		drop := false
		for o := range skipOrd {
			if strings.HasPrefix(ln, "(assert (forall ((f Int)") && strings.Contains(ln, "("+o+" f ") {
				drop = true
			}
		}
		if !drop {
			out = append(out, ln)
		}
	}
	return strings.Join(out, "\n")
}

// z3 session

type z3session struct {
	cmd *exec.Cmd
	in  io.WriteCloser
	out *bufio.Reader
}

func startZ3(bin string) (*z3session, error) {
	cmd := exec.Command(bin, "-in", "-t:15000")
	in, _ := cmd.StdinPipe()
	outp, _ := cmd.StdoutPipe()
	cmd.Stderr = cmd.Stdout
	if err := cmd.Start(); err != nil {
		return nil, err
	}
	return &z3session{cmd: cmd, in: in, out: bufio.NewReader(outp)}, nil
}

func (z *z3session) close() {
	z.in.Close()
	done := make(chan struct{})
	go func() { z.cmd.Wait(); close(done) }()
	select {
	case <-done:
	case <-time.After(2 * time.Second):
		z.cmd.Process.Kill()
	}
}

// send writes commands followed by an echo marker and reads until the marker.
func (z *z3session) send(cmds string) (string, error) {
	fmt.Fprintf(z.in, "%s\n(echo \"<<done>>\")\n", cmds)
	var b strings.Builder
	deadline := time.After(40 * time.Second)
	type line struct {
		s   string
		err error
	}
	ch := make(chan line, 1)
	for {
		go func() {
			s, err := z.out.ReadString('\n')
			ch <- line{s, err}
		}()
		select {
		case l := <-ch:
			if l.err != nil {
				return b.String(), l.err
			}
			if strings.Contains(l.s, "<<done>>") {
				return b.String(), nil
			}
			b.WriteString(l.s)
		case <-deadline:
			z.cmd.Process.Kill()
			return b.String(), fmt.Errorf("solver session timed out")
		}
	}
}

// getValues asks for the values of terms; returns parsed ints (or raw strings).
func (z *z3session) getValues(terms []string) ([]string, error) {
	if len(terms) == 0 {
		return nil, nil
	}
	out, err := z.send("(get-value (" + strings.Join(terms, " ") + "))")
	if err != nil {
		return nil, err
	}
	if strings.Contains(out, "(error") {
		return nil, fmt.Errorf("get-value: %s", firstLines(out, 3))
	}
	// parse "((t v) (t v) ...)" by walking balanced parentheses
	vals := parsePairs(out)
	if len(vals) != len(terms) {
		return nil, fmt.Errorf("get-value: %d values for %d terms: %s", len(vals), len(terms), firstLines(out, 5))
	}
	return vals, nil
}

func parsePairs(s string) []string {
	s = strings.TrimSpace(s)
	if len(s) < 2 {
		return nil
	}
	s = s[1 : len(s)-1] // outer parens
	var vals []string
	i := 0
	for i < len(s) {
		if s[i] != '(' {
			i++
			continue
		}
		// one pair: (term value)
		j, d := i, 0
		for ; j < len(s); j++ {
			if s[j] == '(' {
				d++
			}
			if s[j] == ')' {
				d--
				if d == 0 {
					break
				}
			}
			if s[j] == '|' {
				j++
				for j < len(s) && s[j] != '|' {
					j++
				}
			}
		}
		pair := s[i+1 : j]
		// split term / value: the term is one s-expression
		k, d2 := 0, 0
		for ; k < len(pair); k++ {
			c := pair[k]
			if c == '|' {
				k++
				for k < len(pair) && pair[k] != '|' {
					k++
				}
				continue
			}
			if c == '(' {
				d2++
			}
			if c == ')' {
				d2--
			}
			if d2 == 0 && (c == ' ' || c == '\n') && k > 0 {
				break
			}
		}
		vals = append(vals, strings.TrimSpace(pair[k:]))
		i = j + 1
	}
	return vals
}

func smtInt(v string) (int64, bool) {
	v = strings.TrimSpace(v)
	if strings.HasPrefix(v, "(- ") {
		n, err := strconv.ParseInt(strings.TrimSuffix(v[3:], ")"), 10, 64)
		return -n, err == nil
	}
	if strings.HasPrefix(v, "#x") {
		n, err := strconv.ParseUint(v[2:], 16, 64)
		return int64(n), err == nil
	}
	if strings.HasPrefix(v, "#b") {
		n, err := strconv.ParseUint(v[2:], 2, 64)
		return int64(n), err == nil
	}
	n, err := strconv.ParseInt(v, 10, 64)
	return n, err == nil
}

// ---------------------------------------------------------------------------

type goBuilder struct {
	fv     *FV
	z      *z3session
	decls  []string            // Go statements building the inputs
	arrays map[string]string   // element store key + base value → Go variable of the backing array
	objs   map[string]string   // struct ref value → Go variable
	n      int
	abst   map[string]int64 // abstract values of uninterpreted sorts → ints
	fail   string
	tparam map[string]string // type parameter name → Go type used
	sent   map[string]bool
	ints   []int64 // element values seen while building the inputs
}

func smtIntLit(v int64) string {
	if v < 0 {
		return fmt.Sprintf("(- %d)", -v)
	}
	return fmt.Sprint(v)
}

func (g *goBuilder) name(prefix string) string {
	g.n++
	return fmt.Sprintf("%s%d", prefix, g.n)
}

// syncDecls sends declarations created after the query was generated (heap components touched only now).
func (g *goBuilder) syncDecls() {
	for _, d := range g.fv.decls {
		if !g.sent[d] {
			g.sent[d] = true
			g.z.send(concreteQuery(d))
		}
	}
}

func (g *goBuilder) val1(term string) (string, bool) {
	g.syncDecls()
	vs, err := g.z.getValues([]string{term})
	if err != nil {
		g.fail = err.Error()
		return "", false
	}
	return vs[0], true
}

func (g *goBuilder) intOf(term string) (int64, bool) {
	v, ok := g.val1(term)
	if !ok {
		return 0, false
	}
	n, ok := smtInt(v)
	if !ok {
		// abstract value of an uninterpreted sort
		if id, has := g.abst[v]; has {
			return id, true
		}
		id := int64(len(g.abst) + 1000)
		g.abst[v] = id
		return id, true
	}
	return n, true
}

// goType renders a type for the test with type parameters instantiated to int.
func (g *goBuilder) goType(t types.Type) string {
	switch x := t.(type) {
	case *types.TypeParam:
		if ct := coreType(x); ct != nil {
			return g.goType(ct)
		}
		return "int"
	case *types.Slice:
		return "[]" + g.goType(x.Elem())
	case *types.Pointer:
		return "*" + g.goType(x.Elem())
	case *types.Named:
		s := x.Obj().Name()
		if x.Obj().Pkg() != nil && x.Obj().Pkg() != g.fv.pkg {
			s = x.Obj().Pkg().Name() + "." + s
		}
		if ta := x.TypeArgs(); ta != nil && ta.Len() > 0 {
			var as []string
			for i := 0; i < ta.Len(); i++ {
				as = append(as, g.goType(ta.At(i)))
			}
			s += "[" + strings.Join(as, ", ") + "]"
		}
		return s
	case *types.Basic:
		return x.Name()
	case *types.Signature:
		var ps, rs []string
		for i := 0; i < x.Params().Len(); i++ {
			ps = append(ps, g.goType(x.Params().At(i).Type()))
		}
		for i := 0; i < x.Results().Len(); i++ {
			rs = append(rs, g.goType(x.Results().At(i).Type()))
		}
		r := ""
		if len(rs) == 1 {
			r = " " + rs[0]
		} else if len(rs) > 1 {
			r = " (" + strings.Join(rs, ", ") + ")"
		}
		return "func(" + strings.Join(ps, ", ") + ")" + r
	case *types.Map:
		return "map[" + g.goType(x.Key()) + "]" + g.goType(x.Elem())
	}
	return types.TypeString(t, func(p *types.Package) string {
		if p == g.fv.pkg {
			return ""
		}
		return p.Name()
	})
}

// value builds a Go expression for the model value of an SMT term of Go type t (entry state).
func (g *goBuilder) value(term string, t types.Type, role string, depth int) (string, bool) {
	if depth > 6 {
		g.fail = "structure too deep"
		return "", false
	}
	sort := g.fv.sortOf(t)
	switch {
	case sort == sInt:
		switch ut := t.Underlying().(type) {
		case *types.Pointer:
			return g.object(term, ut, depth)
		case *types.Signature:
			return g.callback(term, ut, role)
		case *types.Map, *types.Interface, *types.Chan:
			g.fail = "unsupported input type " + t.String()
			return "", false
		}
		n, ok := g.intOf(term)
		if !ok {
			return "", false
		}
		return fmt.Sprintf("%s(%d)", g.goType(t), n), true
	case sort == sBool:
		v, ok := g.val1(term)
		return v, ok
	case isBV(sort):
		n, ok := g.intOf(term)
		if !ok {
			return "", false
		}
		return fmt.Sprintf("%s(%d)", g.goType(t), uint64(n)), true
	case sort == sSlice:
		return g.slice(term, t, depth)
	case strings.HasPrefix(sort, "T_"):
		n, ok := g.intOf(term)
		if !ok {
			return "", false
		}
		g.ints = append(g.ints, n)
		return fmt.Sprint(n), true
	}
	g.fail = "unsupported input sort " + sort + " (" + t.String() + ")"
	return "", false
}

func (g *goBuilder) slice(term string, t types.Type, depth int) (string, bool) {
	et := elemType(t)
	base, ok1 := g.intOf("(sbase " + term + ")")
	off, ok2 := g.intOf("(soff " + term + ")")
	ln, ok3 := g.intOf("(slen " + term + ")")
	cp, ok4 := g.intOf("(scap " + term + ")")
	if !(ok1 && ok2 && ok3 && ok4) {
		return "", false
	}
	if base == 0 {
		return "nil", true
	}
	if off < 0 || ln < 0 || cp < ln || off+cp > 64 {
		g.fail = fmt.Sprintf("model slice too large or malformed (off %d len %d cap %d)", off, ln, cp)
		return "", false
	}
	key, _ := g.fv.elemComp(et)
	id := fmt.Sprintf("%s/%d", key, base)
	arrVar, has := g.arrays[id]
	if !has {
		arrVar = g.name("arr")
		g.arrays[id] = arrVar
		size := off + cp
		// other slices on the same base may need more room: allocate generously
		if size < 16 {
			size = 16
		}
		g.decls = append(g.decls, fmt.Sprintf("%s := make([]%s, %d)", arrVar, g.goType(et), size))
		E := g.fv.heapGet(g.fv.entry, key)
		for i := int64(0); i < size && i < off+cp; i++ {
			ev, ok := g.value(fmt.Sprintf("(select (select %s %d) %d)", E, base, i), et, "", depth+1)
			if !ok {
				return "", false
			}
			g.decls = append(g.decls, fmt.Sprintf("%s[%d] = %s", arrVar, i, ev))
		}
	}
	return fmt.Sprintf("%s[%d:%d:%d]", arrVar, off, off+ln, off+cp), true
}

func (g *goBuilder) object(term string, pt *types.Pointer, depth int) (string, bool) {
	ref, ok := g.intOf(term)
	if !ok {
		return "", false
	}
	if ref == 0 {
		return "nil", true
	}
	named, sty := structOf(pt.Elem())
	if sty == nil || named == nil {
		g.fail = "pointer to non-struct input"
		return "", false
	}
	id := fmt.Sprintf("%s/%d", named.String(), ref)
	if v, has := g.objs[id]; has {
		return v, true
	}
	v := g.name("obj")
	g.objs[id] = v
	g.decls = append(g.decls, fmt.Sprintf("%s := new(%s)", v, g.goType(pt.Elem())))
	pc := g.fv.w.contracts[pkgPathOf(named.Obj())]
	for i := 0; i < sty.NumFields(); i++ {
		f := sty.Field(i)
		key, _ := g.fv.fieldComp(named, f)
		role := ""
		if pc != nil {
			role = pc.FieldRole[named.Obj().Name()+"."+f.Name()]
		}
		fvv, ok := g.value(fmt.Sprintf("(select %s %d)", g.fv.heapGet(g.fv.entry, key), ref), f.Type(), role, depth+1)
		if !ok {
			return "", false
		}
		if fvv != "nil" || true {
			g.decls = append(g.decls, fmt.Sprintf("%s.%s = %s", v, f.Name(), fvv))
		}
	}
	return v, true
}

// callback builds a Go function for a callback parameter according to its role.
func (g *goBuilder) callback(term string, sig *types.Signature, role string) (string, bool) {
	rf := strings.Fields(role)
	kind := ""
	if len(rf) > 0 {
		kind = rf[0]
	}
	ft := g.goType(sig)
	switch kind {
	case "ord":
		return fmt.Sprintf("%s(func(a, b int) int { if a < b { return -1 }; if a > b { return 1 }; return 0 })", ft), true
	case "yield":
		// returns the recorded answers of the model, then true
		return fmt.Sprintf("%s(func(v int) bool { govcYields = append(govcYields, v); return true })", ft), true
	case "pred":
		// the model's interpretation of holds(f, v), tabulated over the values that occur in the inputs
		if sig.Params().Len() != 1 {
			g.fail = "predicate callback with several parameters"
			return "", false
		}
		ps := g.fv.sortOf(sig.Params().At(0).Type())
		name := "holds$" + cleanName(ps)
		if !g.fv.declared[name] {
			return fmt.Sprintf("%s(func(v int) bool { return false })", ft), true
		}
		fval, ok := g.val1(term)
		if !ok {
			return "", false
		}
		cands := map[int64]bool{}
		for v := int64(-2); v <= 12; v++ {
			cands[v] = true
		}
		for _, v := range g.ints {
			cands[v] = true
		}
		var trues []string
		for v := range cands {
			r, ok := g.val1(fmt.Sprintf("(%s %s %s)", name, fval, smtIntLit(v)))
			if !ok {
				return "", false
			}
			if r == "true" {
				trues = append(trues, fmt.Sprint(v))
			}
		}
		sort.Strings(trues)
		if len(trues) == 0 {
			return fmt.Sprintf("%s(func(v int) bool { return false })", ft), true
		}
		return fmt.Sprintf("%s(func(v int) bool { switch v { case %s: return true }; return false })", ft, strings.Join(trues, ", ")), true
	case "report":
		return fmt.Sprintf("%s(func(v int, pos int) {})", ft), true
	}
	g.fail = "callback without a role"
	return "", false
}

// replayModel concretises the entry state of the model and runs the real function on it.
func replayModel(w *World, fv *FV, o *Obligation, scratch string, info map[string]interface{}) bool {
	fd := fv.fi.Decl
	q := o.CexQuery
	if q == "" {
		q = o.Query
	}
	q = concreteQuery(q)
	q = strings.Replace(q, "(check-sat)\n", "", 1)
	var z *z3session
	var status string
	for _, bin := range []string{"z3-new", "z3"} {
		s, err := startZ3(bin)
		if err != nil {
			continue
		}
		out, err := s.send(q + "\n(check-sat)")
		status = strings.TrimSpace(out)
		if err == nil && strings.HasPrefix(status, "sat") {
			z = s
			info["model_solver"] = bin + " (concrete mode: type parameters := Int)"
			break
		}
		s.close()
	}
	if z == nil {
		info["status"] = "no-model"
		info["concrete_mode"] = "no model in concrete mode: " + firstLines(status, 2)
		return false
	}
	defer z.close()
	// prefer small models: each preference is kept only if the query stays satisfiable with it
	prefer := func(c string) {
		out, err := z.send("(push)\n(assert " + c + ")\n(check-sat)")
		if err != nil || !strings.HasPrefix(strings.TrimSpace(out), "sat") {
			z.send("(pop)")
			z.send("(check-sat)")
		}
	}
	var entryTerms []Term
	for _, t := range fv.entry.vars {
		entryTerms = append(entryTerms, t)
	}
	sort.Slice(entryTerms, func(i, j int) bool { return entryTerms[i].S < entryTerms[j].S })
	for _, t := range entryTerms {
		switch {
		case t.Sort == sSlice:
			prefer("(= (soff " + t.S + ") 0)")
			prefer("(<= (slen " + t.S + ") 8)")
			prefer("(<= (scap " + t.S + ") (+ (slen " + t.S + ") 2))")
			prefer("(<= (sbase " + t.S + ") 100)")
		case t.Sort == sInt:
			prefer("(and (<= (- 16) " + t.S + ") (<= " + t.S + " 16))")
		}
	}
	g := &goBuilder{fv: fv, z: z, arrays: map[string]string{}, objs: map[string]string{}, abst: map[string]int64{}, sent: map[string]bool{}}
	for _, ln := range strings.Split(o.Query, "\n") {
		g.sent[ln] = true
	}
	// inputs: receiver and parameters at entry
	var args []string
	recv := ""
	model := map[string]string{}
	cur := map[string]string{}
	old := map[string]string{}
	var paramDecls []string
	getEntry := func(id *ast.Ident, role string) (string, bool) {
		obj := fv.info.Defs[id]
		t, ok := fv.entry.vars[obj]
		if !ok {
			g.fail = "no entry value for " + id.Name
			return "", false
		}
		v, ok := g.value(t.S, obj.Type(), role, 0)
		if ok {
			model[id.Name] = v
			pv := "p_" + id.Name
			paramDecls = append(paramDecls, fmt.Sprintf("var %s %s = %s", pv, g.goType(obj.Type()), v), fmt.Sprintf("o_%s := govcCopy(%s)", id.Name, pv), fmt.Sprintf("_ = o_%s", id.Name))
			cur[id.Name] = pv
			old[id.Name] = "o_" + id.Name
			return pv, true
		}
		return v, ok
	}
	if fd.Recv != nil && len(fd.Recv.List) > 0 && len(fd.Recv.List[0].Names) > 0 {
		v, ok := getEntry(fd.Recv.List[0].Names[0], "")
		if !ok {
			info["status"] = "model-not-concretised"
			info["concretise_error"] = g.fail
			return false
		}
		recv = v
	}
	for _, f := range fd.Type.Params.List {
		for _, n := range f.Names {
			role := ""
			if fv.fc != nil {
				role = fv.fc.Roles[n.Name]
			}
			if n.Name == "_" {
				args = append(args, "*new("+g.goType(fv.info.Defs[n].Type())+")")
				continue
			}
			v, ok := getEntry(n, role)
			if !ok {
				info["status"] = "model-not-concretised"
				info["concretise_error"] = g.fail
				return false
			}
			args = append(args, v)
		}
	}
	// panics-when condition in the model
	allowed := "false"
	if fv.fc != nil && fv.fc.PanicsWhen != nil {
		if v, ok := g.val1(fv.panicsEntry()); ok {
			allowed = v
		}
	}
	info["model"] = model
	// the call
	call := fd.Name.Name
	if recv != "" {
		call = recv + "." + call
	}
	if fd.Type.Params != nil && len(fd.Type.Params.List) > 0 {
		last := fd.Type.Params.List[len(fd.Type.Params.List)-1]
		if _, isVar := last.Type.(*ast.Ellipsis); isVar && len(args) > 0 {
			args[len(args)-1] += "..."
		}
	}
	callExpr := fmt.Sprintf("%s(%s)", call, strings.Join(args, ", "))
	sig := fv.fi.Obj.Type().(*types.Signature)
	var results []string
	for i := 0; i < sig.Results().Len(); i++ {
		results = append(results, fmt.Sprintf("r%d", i))
	}
	checks, compiled, skipped := fv.compileEnsures(cur, old, results)
	info["postconditions_compiled"] = compiled
	info["postconditions_not_compiled"] = skipped
	var b strings.Builder
	fmt.Fprintf(&b, "package %s\n\nimport (\n\t\"fmt\"\n\t\"reflect\"\n\t\"testing\"\n\t\"time\"\n\t\"unsafe\"\n)\n\nvar govcYields []int\nvar _ = reflect.ValueOf\nvar _ unsafe.Pointer\n%s\n", fv.fi.Pkg.Name, goReplaySupport)
	fmt.Fprintf(&b, "// Replay of obligation %s\n// %s\nfunc TestGovcReplay(t *testing.T) {\n", o.Name, o.Desc)
	for _, d := range g.decls {
		fmt.Fprintf(&b, "\t%s\n", d)
	}
	for _, d := range paramDecls {
		fmt.Fprintf(&b, "\t%s\n", d)
	}
	for i := 0; i < sig.Results().Len(); i++ {
		fmt.Fprintf(&b, "\tvar r%d %s\n\t_ = r%d\n", i, g.goType(sig.Results().At(i).Type()), i)
	}
	assign := ""
	if len(results) > 0 {
		assign = strings.Join(results, ", ") + " = "
	}
	fmt.Fprintf(&b, "\tallowedToPanic := %s\n", allowed)
	fmt.Fprintf(&b, "\tdone := make(chan string, 1)\n\tgo func() {\n\t\tdefer func() {\n\t\t\tif r := recover(); r != nil {\n\t\t\t\tdone <- fmt.Sprintf(\"panic: %%v\", r)\n\t\t\t}\n\t\t}()\n\t\t%s%s\n\t\tdone <- \"returned\"\n\t}()\n", assign, callExpr)
	fmt.Fprintf(&b, "\tselect {\n\tcase r := <-done:\n\t\tfmt.Println(\"GOVC-OUTCOME\", r)\n\t\tif r != \"returned\" && !allowedToPanic {\n\t\t\tt.Fatalf(\"VIOLATION-CONFIRMED unexpected %%s\", r)\n\t\t}\n\t\tif r == \"returned\" && allowedToPanic {\n\t\t\tt.Fatalf(\"VIOLATION-CONFIRMED returned normally where the contract demands a panic\")\n\t\t}\n\t\tif r != \"returned\" {\n\t\t\treturn\n\t\t}\n\tcase <-time.After(10 * time.Second):\n\t\tt.Fatalf(\"VIOLATION-CONFIRMED no termination within 10s\")\n\t}\n%s}\n", checks)
	src := b.String()
	info["go_test"] = src
	info["go_test_pkg"] = shortPkg(fv.fi.Pkg.PkgPath)
	ok, out := runReplayTest(shortPkg(fv.fi.Pkg.PkgPath), src)
	info["run"] = map[string]interface{}{"cmd": "go test -tags verif -overlay <ov.json> -vet=off -count=1 -timeout 60s -run ^TestGovcReplay$ ./" + shortPkg(fv.fi.Pkg.PkgPath), "passed": ok, "output": firstLines(out, 40)}
	if !ok && strings.Contains(out, "VIOLATION-CONFIRMED") {
		info["status"] = "confirmed"
		return true
	}
	if !ok {
		info["status"] = "replay-did-not-build-or-run"
		return false
	}
	info["status"] = "not-reproduced"
	return false
}

// runReplayTest injects the test into the package by overlay and runs it.
func runReplayTest(pkg, src string) (bool, string) {
	dir, _ := os.MkdirTemp("", "govcr")
	defer os.RemoveAll(dir)
	tf := filepath.Join(dir, "zz_govc_replay_test.go")
	os.WriteFile(tf, []byte(src), 0o644)
	ov := map[string]map[string]string{"Replace": {filepath.Join(repoDir, pkg, "zz_govc_replay_test.go"): tf}}
	ob, _ := json.Marshal(ov)
	ovf := filepath.Join(dir, "ov.json")
	os.WriteFile(ovf, ob, 0o644)
	cmd := exec.Command("go", "test", "-tags", "verif", "-overlay", ovf, "-vet=off", "-count=1", "-timeout", "60s", "-run", "^TestGovcReplay$", "./"+pkg)
	cmd.Dir = repoDir
	cmd.Env = append(os.Environ(), "GOFLAGS=-mod=mod", "GOPROXY=off", "GOSUMDB=off", "GOTOOLCHAIN=local")
	out, err := cmd.CombinedOutput()
	return err == nil, string(out)
}

func counterexample(w *World, fv *FV, o *Obligation, scratch string, info map[string]interface{}) (confirmed bool) {
	defer func() {
		if r := recover(); r != nil {
			info["status"] = "model-not-concretised"
			info["concretise_error"] = fmt.Sprint(r)
			confirmed = false
		}
	}()
	return replayModel(w, fv, o, scratch, info)
}

// cmdReplay re-runs the Go test stored in a replay file against the current tree.
func cmdReplay(args []string) int {
	if len(args) < 1 {
		fmt.Fprintln(os.Stderr, "replay <file>")
		return 2
	}
	b, err := os.ReadFile(args[0])
	if err != nil {
		fmt.Fprintln(os.Stderr, err)
		return 2
	}
	var info map[string]interface{}
	if err := json.Unmarshal(b, &info); err != nil {
		fmt.Fprintln(os.Stderr, err)
		return 2
	}
	fmt.Printf("obligation: %v\nclause: %v\nstatus when recorded: %v\n", info["obligation"], info["clause"], info["status"])
	if f, ok := info["go_test_file"].(string); ok {
		pkg, _ := info["pkg"].(string)
		run, _ := info["run"].(string)
		bound, _ := info["bound"].(string)
		ok, out, _, _ := runBounded(pkg, filepath.Base(f), run, bound, 0, false)
		fmt.Println(firstLines(out, 60))
		if !ok {
			fmt.Println("replay: the violation reproduces")
			return 1
		}
		fmt.Println("replay: passes on the current tree")
		return 0
	}
	src, _ := info["go_test"].(string)
	pkg, _ := info["go_test_pkg"].(string)
	if src == "" {
		fmt.Println("no executable replay recorded (no-failing-input-found); solver output:")
		fmt.Println(info["solvers"], info["solver_output"])
		return 1
	}
	ok, out := runReplayTest(pkg, src)
	fmt.Println(firstLines(out, 60))
	if !ok {
		fmt.Println("replay: the violation reproduces")
		return 1
	}
	fmt.Println("replay: passes on the current tree")
	return 0
}

var _ = sort.Strings
