package main

// Translation of contract expressions to SMT terms.

import (
	"os"
	"runtime/debug"
	"fmt"
	"go/token"
	"go/types"
	"strconv"
	"strings"
)

type Env struct {
	fv       *FV
	st       *State // state in which heap reads and locals are evaluated
	old      *State // state for old(...)
	names    map[string]Term
	oldNames map[string]Term // names visible inside old(...) (entry values of parameters); nil = same as names
	pc       *PkgContracts   // contracts in whose scope names are resolved
	scopePos token.Pos       // position for resolving Go locals by name (own function only)
	scopePkg *types.Package
	depth    int
	qdepth   int // number of enclosing quantifier binders (canonical bound-variable names)
	tsubst   map[string]types.Type // callee type parameter name → actual type (contracts translated at a call site)
	results  []Term
	roles    map[string]string
	self     *FuncInfo
	groundDiv bool // ground `/` and `%` are abstracted into quotient/remainder constants defined on st (region expressions)
}

func (e *Env) with(name string, t Term) *Env {
	n := *e
	n.names = make(map[string]Term, len(e.names)+1)
	for k, v := range e.names {
		n.names[k] = v
	}
	n.names[name] = t
	if e.oldNames != nil {
		n.oldNames = make(map[string]Term, len(e.oldNames)+1)
		for k, v := range e.oldNames {
			n.oldNames[k] = v
		}
		n.oldNames[name] = t
	}
	return &n
}

func (fv *FV) sfail(format string, args ...interface{}) {
	if os.Getenv("GOVC_TRACE") != "" {
		debug.PrintStack()
	}
	panic(unsupported{"spec: " + fmt.Sprintf(format, args...)})
}

var nilTerm = Term{S: "0", Sort: sInt, Lit: true, T: types.Typ[types.UntypedNil]}

func isNilLit(t Term) bool {
	b, ok := t.T.(*types.Basic)
	return ok && b.Kind() == types.UntypedNil && t.Lit
}

// coerce makes two operands sort-compatible (literals to bit-vectors, nil to slices, zero to anything).
func (fv *FV) coerce(a, b Term) (Term, Term) {
	if a.Sort == b.Sort {
		return a, b
	}
	fix := func(l, other Term) (Term, bool) {
		if l.S == "zero?" {
			return fv.zeroLike(other), true
		}
		if !l.Lit {
			return l, false
		}
		if isBV(other.Sort) && l.Sort == sInt {
			v, err := strconv.ParseInt(strings.Trim(strings.TrimPrefix(l.S, "(- "), ")"), 10, 64)
			if err == nil {
				if strings.HasPrefix(l.S, "(- ") {
					v = -v
				}
				w := bvWidth(other.Sort)
				var u uint64 = uint64(v)
				if w < 64 {
					u &= (1 << uint(w)) - 1
				}
				return Term{S: fmt.Sprintf("(_ bv%d %d)", u, w), Sort: other.Sort, T: other.T}, true
			}
		}
		if isNilLit(l) && other.Sort == sSlice {
			return Term{S: "(mk-slice 0 0 0 0)", Sort: sSlice, T: other.T}, true
		}
		if isNilLit(l) && other.Sort == "ElemPtr" {
			return Term{S: "(mk-eptr 0 0)", Sort: "ElemPtr", T: other.T}, true
		}
		return l, false
	}
	if x, ok := fix(a, b); ok {
		return x, b
	}
	if x, ok := fix(b, a); ok {
		return a, x
	}
	return a, b
}

func (fv *FV) zeroLike(t Term) Term {
	if t.T != nil {
		if _, isSpec := t.T.(*specType); !isSpec {
			return fv.zero(t.T)
		}
	}
	return Term{S: fv.zeroOfSort(t.Sort, nil), Sort: t.Sort, T: t.T}
}

func (fv *FV) eqTerms(a, b Term) string {
	a, b = fv.coerce(a, b)
	if a.Sort != b.Sort {
		fv.sfail("comparison of different sorts: %s : %s  vs  %s : %s", a.S, a.Sort, b.S, b.Sort)
	}
	if a.Sort == sSlice && (isNilSlice(a) || isNilSlice(b)) {
		x := a
		if isNilSlice(a) {
			x = b
		}
		return eq("(sbase "+x.S+")", "0")
	}
	return eq(a.S, b.S)
}

func isNilSlice(t Term) bool { return t.S == "(mk-slice 0 0 0 0)" }

func (fv *FV) localEnv(st *State, pos token.Pos) *Env {
	return &Env{fv: fv, st: st, old: fv.entry, names: map[string]Term{}, pc: fv.pc, scopePos: pos, scopePkg: fv.pkg, self: fv.fi}
}

// resolveType turns type text from a contract into a Go type (or a spec type).
func (fv *FV) resolveType(env *Env, text string) types.Type {
	text = strings.TrimSpace(text)
	if env != nil && env.tsubst != nil {
		if t, ok := env.tsubst[text]; ok {
			return t
		}
	}
	switch text {
	case "int":
		return types.Typ[types.Int]
	case "bool":
		return types.Typ[types.Bool]
	case "byte":
		return types.Typ[types.Uint8]
	case "uint64":
		return types.Typ[types.Uint64]
	case "string":
		return types.Typ[types.String]
	case "ref":
		return types.NewPointer(types.NewStruct(nil, nil))
	}
	if (strings.HasPrefix(text, "keyof(") || strings.HasPrefix(text, "valof(")) && strings.HasSuffix(text, ")") {
		// the key / value type of a set- or map-valued contract expression
		e, err := parseSpecExpr(text[6 : len(text)-1])
		if err != nil {
			fv.sfail("bad type expression %q: %v", text, err)
		}
		t := fv.spec(env, e)
		if st, ok := t.T.(*specType); ok {
			if strings.HasPrefix(text, "keyof(") && st.key != nil {
				return st.key
			}
			if strings.HasPrefix(text, "valof(") && st.elem != nil {
				return st.elem
			}
		}
		if mt, ok := underMap(t.T); ok {
			if strings.HasPrefix(text, "keyof(") {
				return mt.Key()
			}
			return mt.Elem()
		}
		fv.sfail("%s: not a set or map", text)
	}
	if text == "int64" {
		return types.Typ[types.Int64]
	}
	if strings.HasPrefix(text, "set[") && strings.HasSuffix(text, "]") {
		el := fv.resolveType(env, text[4:len(text)-1])
		return &specType{sort: arr(fv.sortOf(el), sBool), elem: types.Typ[types.Bool], key: el}
	}
	if strings.HasPrefix(text, "imap[") && strings.HasSuffix(text, "]") { // imap[V]: Int → V ghost map
		el := fv.resolveType(env, text[5:len(text)-1])
		return &specType{sort: arr(sInt, fv.sortOf(el)), elem: el}
	}
	if strings.HasPrefix(text, "gmap[") {
		// gmap[K]V: ghost total map
		d, k := 0, -1
		for i := 4; i < len(text); i++ {
			if text[i] == '[' {
				d++
			}
			if text[i] == ']' {
				d--
				if d == 0 {
					k = i
					break
				}
			}
		}
		if k > 0 {
			kt := fv.resolveType(env, text[5:k])
			vt := fv.resolveType(env, text[k+1:])
			return &specType{sort: arr(fv.sortOf(kt), fv.sortOf(vt)), elem: vt, key: kt}
		}
	}
	if strings.HasPrefix(text, "bag[") && strings.HasSuffix(text, "]") {
		el := fv.resolveType(env, text[4:len(text)-1])
		return &specType{sort: arr(fv.sortOf(el), sInt), elem: el}
	}
	if env != nil && env.pc != nil && env.pc != fv.pc && env.pc.Path != "" {
		if t := fv.resolveForeignType(env, text); t != nil {
			return t
		}
	}
	pos := env.scopePos
	pkg := env.scopePkg
	if pkg == nil {
		pkg = fv.pkg
	}
	if !pos.IsValid() || pkg != fv.pkg {
		pos = fv.fi.Decl.Body.Lbrace + 1
		pkg = fv.pkg
	}
	tv, err := types.Eval(fv.w.fset, pkg, pos, text)
	if err != nil || !tv.IsType() {
		fv.sfail("cannot resolve type %q: %v", text, err)
	}
	return tv.Type
}

func (fv *FV) lookupSpecFunc(env *Env, name string) *SpecFunc {
	var seen = map[*PkgContracts]bool{}
	var look func(pc *PkgContracts) *SpecFunc
	look = func(pc *PkgContracts) *SpecFunc {
		if pc == nil || seen[pc] {
			return nil
		}
		seen[pc] = true
		if sf := pc.Specs[name]; sf != nil {
			return sf
		}
		for _, imp := range pc.Imports {
			if r := look(fv.w.contracts[imp]); r != nil {
				return r
			}
			if r := look(fv.w.libc[imp]); r != nil {
				return r
			}
		}
		return nil
	}
	return look(env.pc)
}

func (fv *FV) specBool(env *Env, e SExpr) string {
	t := fv.spec(env, e)
	if t.Sort != sBool {
		fv.sfail("expected a boolean: %s", specString(e))
	}
	return t.S
}

func (fv *FV) spec(env *Env, e SExpr) Term {
	switch x := e.(type) {
	case *SInt:
		return mkIntS(x.V)
	case *SChar:
		return Term{S: fmt.Sprintf("(_ bv%d 8)", x.V), Sort: sBV8, T: types.Typ[types.Uint8]}
	case *SBool:
		return mkBool(x.V)
	case *SStr:
		return fv.stringLit(env.st, x.V)
	case *SIdent:
		return fv.specIdent(env, x.Name)
	case *SUn:
		v := fv.spec(env, x.X)
		switch x.Op {
		case "!":
			if v.Sort != sBool {
				fv.sfail("! on non-boolean %s", specString(x.X))
			}
			return Term{S: not(v.S), Sort: sBool}
		case "-":
			if v.Sort != sInt {
				fv.sfail("unary - on %s", v.Sort)
			}
			return Term{S: app("-", v.S), Sort: sInt, T: v.T}
		}
	case *SBin:
		return fv.specBin(env, x)
	case *SField:
		return fv.specField(env, x)
	case *SIndex:
		a := fv.spec(env, x.X)
		i := fv.spec(env, x.I)
		return fv.indexTerm(env.st, a, i)
	case *SSliceE:
		a := fv.spec(env, x.X)
		lo, hi := mkInt(0), Term{}
		if x.Lo != nil {
			lo = fv.spec(env, x.Lo)
		}
		if x.Hi != nil {
			hi = fv.spec(env, x.Hi)
		}
		return fv.sliceTerm(a, lo, hi, Term{})
	case *SQuant:
		return fv.specQuant(env, x)
	case *SCall:
		return fv.specCall(env, x)
	}
	fv.sfail("unsupported expression %s", specString(e))
	return Term{}
}

func (fv *FV) specIdent(env *Env, name string) Term {
	if t, ok := env.names[name]; ok {
		return t
	}
	switch name {
	case "nil":
		return nilTerm
	case "zero":
		// a Go variable called zero (slice.LCSFunc's sentinel) shadows the spec keyword
		if env.scopePos.IsValid() && env.scopePkg != nil {
			if sc := env.scopePkg.Scope().Innermost(env.scopePos); sc != nil {
				if _, obj := sc.LookupParent(name, env.scopePos); obj != nil {
					if t, ok := env.st.vars[obj]; ok {
						return t
					}
				}
			}
		}
		return Term{S: "zero?", Sort: "?"}
	case "result":
		if len(env.results) == 1 {
			return env.results[0]
		}
		fv.sfail("'result' needs exactly one result (have %d); use result.N", len(env.results))
	case "MaxInt":
		return mkIntS("9223372036854775807")
	case "MinInt":
		return mkIntS("-9223372036854775808")
	}
	if t, ok := env.st.ghost[name]; ok {
		return t
	}
	// Go local / parameter by scope
	if env.scopePos.IsValid() && env.scopePkg != nil {
		if sc := env.scopePkg.Scope().Innermost(env.scopePos); sc != nil {
			if _, obj := sc.LookupParent(name, env.scopePos); obj != nil {
				if t, ok := env.st.vars[obj]; ok {
					return t
				}
				if t, ok := fv.globalObj(env.st, obj); ok {
					return t
				}
			}
		}
	}
	// package-level ghost variable
	if env.pc != nil {
		if gv := fv.lookupGhostVar(env.pc, name); gv != nil {
			return fv.ghostVarTerm(env, gv)
		}
	}
	// package-level Go object of the contract's package
	if env.pc != nil {
		if p := fv.w.pkgs[env.pc.Path]; p != nil {
			if obj := p.Types.Scope().Lookup(name); obj != nil {
				if t, ok := fv.globalObj(env.st, obj); ok {
					return t
				}
			}
		}
	}
	fv.sfail("unknown identifier %q", name)
	return Term{}
}

func (fv *FV) lookupGhostVar(pc *PkgContracts, name string) *GhostVar {
	seen := map[*PkgContracts]bool{}
	var look func(pc *PkgContracts) *GhostVar
	look = func(pc *PkgContracts) *GhostVar {
		if pc == nil || seen[pc] {
			return nil
		}
		seen[pc] = true
		if g := pc.GhostVars[name]; g != nil {
			return g
		}
		for _, imp := range pc.Imports {
			if g := look(fv.w.contracts[imp]); g != nil {
				return g
			}
			if g := look(fv.w.libc[imp]); g != nil {
				return g
			}
		}
		return nil
	}
	return look(pc)
}

func (fv *FV) ghostVarTerm(env *Env, gv *GhostVar) Term {
	key := "G:" + gv.Name
	t := fv.resolveType(env, gv.Type)
	if fv.compSort[key] == "" {
		fv.compSort[key] = fv.sortOf(t)
	}
	return Term{S: fv.heapGet(env.st, key), Sort: fv.compSort[key], T: t}
}

// globalObj gives the term of a package-level constant or function value.
func (fv *FV) globalObj(st *State, obj types.Object) (Term, bool) {
	switch o := obj.(type) {
	case *types.Const:
		return fv.constTerm(st, o.Val(), o.Type()), true
	case *types.Func:
		return fv.funcValue(o), true
	case *types.Nil:
		return nilTerm, true
	}
	return Term{}, false
}

func (fv *FV) funcValue(f *types.Func) Term {
	f = f.Origin()
	qual := f.Name()
	if sig, ok := f.Type().(*types.Signature); ok && sig.Recv() != nil {
		rt := sig.Recv().Type()
		if p, ok := rt.(*types.Pointer); ok {
			rt = p.Elem()
		}
		if n, ok := rt.(*types.Named); ok {
			qual = n.Obj().Name() + "." + qual
		}
	}
	name := "fn$" + cleanName(shortPkg(pkgPathOf(f))+"."+qual)
	if !fv.declared[name] {
		fv.declared[name] = true
		fv.decls = append(fv.decls, fmt.Sprintf("(declare-const %s Int)", name))
		fv.axioms = append(fv.axioms, app(">", name, "0"))
		for _, other := range fv.funcConstNames { // different functions are different values
			fv.axioms = append(fv.axioms, not(eq(name, other)))
		}
		fv.funcConstNames = append(fv.funcConstNames, name)
	}
	return Term{S: name, Sort: sInt, T: f.Type()}
}

func (fv *FV) specBin(env *Env, x *SBin) Term {
	switch x.Op {
	case "&&":
		return Term{S: and(fv.specBool(env, x.L), fv.specBool(env, x.R)), Sort: sBool}
	case "||":
		return Term{S: or(fv.specBool(env, x.L), fv.specBool(env, x.R)), Sort: sBool}
	case "==>":
		return Term{S: implies(fv.specBool(env, x.L), fv.specBool(env, x.R)), Sort: sBool}
	case "<==>":
		return Term{S: eq(fv.specBool(env, x.L), fv.specBool(env, x.R)), Sort: sBool}
	}
	l := fv.spec(env, x.L)
	r := fv.spec(env, x.R)
	switch x.Op {
	case "==":
		return Term{S: fv.eqTerms(l, r), Sort: sBool}
	case "!=":
		return Term{S: not(fv.eqTerms(l, r)), Sort: sBool}
	}
	if env.groundDiv && env.qdepth == 0 && (x.Op == "/" || x.Op == "%") {
		return fv.arith(x.Op, l, r, false, env.st, token.NoPos)
	}
	return fv.arith(x.Op, l, r, false, nil, token.NoPos)
}

// arith builds an arithmetic / comparison term; unsigned selects unsigned bit-vector comparison.
func (fv *FV) arith(op string, l, r Term, goSemantics bool, st *State, pos token.Pos) Term {
	l, r = fv.coerce(l, r)
	if l.Sort != r.Sort {
		fv.sfail("operator %s on different sorts %s and %s (%s, %s)", op, l.Sort, r.Sort, l.S, r.S)
	}
	rt := l.T
	if rt == nil || l.Lit {
		rt = r.T
	}
	if l.Sort == sInt {
		switch op {
		case "+", "-", "*":
			return Term{S: app(op, l.S, r.S), Sort: sInt, T: rt}
		case "/":
			// Go truncated division
			if st != nil && !l.Lit {
				q, _ := fv.divMod(st, l.S, r.S)
				return Term{S: q, Sort: sInt, T: rt}
			}
			return Term{S: fv.truncDiv(l.S, r.S), Sort: sInt, T: rt}
		case "%":
			if st != nil && !l.Lit {
				_, m := fv.divMod(st, l.S, r.S)
				return Term{S: m, Sort: sInt, T: rt}
			}
			return Term{S: fv.truncMod(l.S, r.S), Sort: sInt, T: rt}
		case "<", "<=", ">", ">=":
			return Term{S: app(op, l.S, r.S), Sort: sBool}
		case "|":
			if p, ok := powerOfTwo(r.S); ok {
				bit := eq(app("mod", app("div", l.S, fmt.Sprint(p)), "2"), "1")
				return Term{S: ite(bit, l.S, app("+", l.S, fmt.Sprint(p))), Sort: sInt, T: rt}
			}
		case "&^":
			// n &^ (2^k-1) for n >= 0
			if m, ok := lowMask(r.S); ok {
				return Term{S: app("-", l.S, app("mod", l.S, fmt.Sprint(m+1))), Sort: sInt, T: rt}
			}
		case "&":
			if p, ok := powerOfTwo(r.S); ok && p > 1 || ok && r.S == "1" {
				bit := eq(app("mod", app("div", l.S, fmt.Sprint(p)), "2"), "1")
				return Term{S: ite(bit, fmt.Sprint(p), "0"), Sort: sInt, T: rt}
			}
			if m, ok := lowMask(r.S); ok {
				return Term{S: app("mod", l.S, fmt.Sprint(m+1)), Sort: sInt, T: rt}
			}
		}
		fv.sfail("unsupported integer operator %s", op)
	}
	if isBV(l.Sort) {
		w := bvWidth(l.Sort)
		switch op {
		case "+":
			return Term{S: app("bvadd", l.S, r.S), Sort: l.Sort, T: rt}
		case "-":
			return Term{S: app("bvsub", l.S, r.S), Sort: l.Sort, T: rt}
		case "*":
			return Term{S: app("bvmul", l.S, r.S), Sort: l.Sort, T: rt}
		case "/":
			return Term{S: app("bvudiv", l.S, r.S), Sort: l.Sort, T: rt}
		case "%":
			return Term{S: app("bvurem", l.S, r.S), Sort: l.Sort, T: rt}
		case "&":
			return Term{S: app("bvand", l.S, r.S), Sort: l.Sort, T: rt}
		case "|":
			return Term{S: app("bvor", l.S, r.S), Sort: l.Sort, T: rt}
		case "^":
			return Term{S: app("bvxor", l.S, r.S), Sort: l.Sort, T: rt}
		case "&^":
			return Term{S: app("bvand", l.S, app("bvnot", r.S)), Sort: l.Sort, T: rt}
		case "<<":
			return Term{S: app("bvshl", l.S, r.S), Sort: l.Sort, T: rt}
		case ">>":
			return Term{S: app("bvlshr", l.S, r.S), Sort: l.Sort, T: rt}
		case "<":
			return Term{S: app("bvult", l.S, r.S), Sort: sBool}
		case "<=":
			return Term{S: app("bvule", l.S, r.S), Sort: sBool}
		case ">":
			return Term{S: app("bvugt", l.S, r.S), Sort: sBool}
		case ">=":
			return Term{S: app("bvuge", l.S, r.S), Sort: sBool}
		}
		_ = w
	}
	fv.sfail("unsupported operator %s on sort %s", op, l.Sort)
	return Term{}
}

func powerOfTwo(s string) (int64, bool) {
	v, err := strconv.ParseInt(s, 10, 64)
	if err != nil || v <= 0 {
		return 0, false
	}
	return v, v&(v-1) == 0
}

func lowMask(s string) (int64, bool) {
	v, err := strconv.ParseInt(s, 10, 64)
	if err != nil || v <= 0 {
		return 0, false
	}
	if (v+1)&v == 0 {
		return v, true
	}
	return 0, false
}

// divMod abstracts x / y and x % y with a symbolic divisor: fresh q, r characterised exactly (truncated division)
// by one product fact, plus the linear consequences the solvers need most often. This keeps `div`/`mod` by a
// symbolic value (which drags z3's nonlinear machinery into every query of the function) out of the VCs.
func (fv *FV) divMod(st *State, x, y string) (string, string) {
	key := x + "\x00" + y
	if c, ok := fv.divCache[key]; ok {
		return c[0], c[1]
	}
	q := fv.fresh("quo", sInt)
	r := fv.fresh("rem", sInt)
	fv.define(st, implies(not(eq(y, "0")), and(
		eq(x, app("+", app("*", y, q), r)),
		app("<", ite(app(">=", r, "0"), r, app("-", r)), ite(app(">=", y, "0"), y, app("-", y))),
		implies(app(">=", x, "0"), app(">=", r, "0")),
		implies(app("<=", x, "0"), app("<=", r, "0")))))
	fv.define(st, implies(and(app(">=", x, "0"), app(">", y, "0")), and(app(">=", q, "0"), app("<=", q, x),
		implies(app("<", x, y), and(eq(q, "0"), eq(r, x))),
		implies(and(app("<=", y, x), app("<", x, app("*", "2", y))), and(eq(q, "1"), eq(r, app("-", x, y)))))))
	if fv.divCache == nil {
		fv.divCache = map[string][2]string{}
	}
	fv.divCache[key] = [2]string{q, r}
	return q, r
}

func (fv *FV) truncDiv(a, b string) string {
	// for a >= 0 and b > 0 (the only case in scope) this equals SMT div; the general case is encoded exactly
	return fmt.Sprintf("(ite (>= %s 0) (div %s %s) (- (div (- %s) %s)))", a, a, b, a, b)
}
func (fv *FV) truncMod(a, b string) string {
	return fmt.Sprintf("(ite (>= %s 0) (mod %s %s) (- (mod (- %s) %s)))", a, a, b, a, b)
}

func (fv *FV) specField(env *Env, x *SField) Term {
	// result.N
	if id, ok := x.X.(*SIdent); ok && id.Name == "result" {
		if n, err := strconv.Atoi(x.Name); err == nil {
			if n >= len(env.results) {
				fv.sfail("result.%d: function has %d results", n, len(env.results))
			}
			return env.results[n]
		}
	}
	// package-qualified name: io.EOF
	if id, ok := x.X.(*SIdent); ok {
		if _, bound := env.names[id.Name]; !bound {
			for path, tp := range fv.w.allTypes {
				if tp.Name() == id.Name && (path == id.Name || strings.HasSuffix(path, "/"+id.Name)) {
					if obj := tp.Scope().Lookup(x.Name); obj != nil {
						if t, ok := fv.globalObj(env.st, obj); ok {
							return t
						}
						if vv, ok := obj.(*types.Var); ok {
							return fv.pkgVar(env.st, vv)
						}
					}
				}
			}
		}
	}
	v := fv.spec(env, x.X)
	if v.Sort == sSlice {
		switch x.Name {
		case "base":
			return Term{S: "(sbase " + v.S + ")", Sort: sInt}
		case "off":
			return Term{S: "(soff " + v.S + ")", Sort: sInt}
		}
	}
	if v.Sort == sStr {
		switch x.Name {
		case "base":
			return Term{S: "(strbase " + v.S + ")", Sort: sInt}
		case "off":
			return Term{S: "(stroff " + v.S + ")", Sort: sInt}
		}
	}
	return fv.fieldTerm(env.st, v, x.Name)
}

// fieldTerm reads field name of v (a pointer to struct, or a struct value).
func (fv *FV) fieldTerm(st *State, v Term, name string) Term {
	if v.T == nil {
		fv.sfail("field %s of untyped term %s", name, v.S)
	}
	if isUserByRef(v.T) {
		v.T = types.NewPointer(v.T) // a struct held by reference
	}
	t := v.T
	if tp, ok := t.(*types.TypeParam); ok {
		_ = tp
	}
	if p, ok := t.Underlying().(*types.Pointer); ok {
		named, sty := structOf(p.Elem())
		if sty == nil {
			fv.sfail("field %s: %s is not a pointer to struct", name, t)
		}
		f := findField(sty, name)
		if f == nil {
			if gt := fv.ghostField(named, name); gt != "" {
				return fv.ghostFieldTerm(st, named, name, gt, v)
			}
			fv.sfail("no field %s in %s", name, p.Elem())
		}
		key, _ := fv.fieldComp(named, f)
		ft := f.Type()
		if isOpaqueStruct(ft) {
			ft = types.NewPointer(ft) // the embedded library object, by reference
		}
		return fv.shorten(Term{S: sel(fv.heapGet(st, key), v.S), Sort: fv.sortOf(f.Type()), T: ft}, f.Name())
	}
	if named, ok := types.Unalias(t).(*types.Named); ok {
		if _, isIface := named.Underlying().(*types.Interface); isIface {
			if gt := fv.ghostField(named, name); gt != "" {
				return fv.ghostFieldTerm(st, named, name, gt, v)
			}
			fv.sfail("no ghost field %s on interface %s", name, named.Obj().Name())
		}
	}
	if named, sty := structOf(t); sty != nil {
		f := findField(sty, name)
		if f == nil {
			fv.sfail("no field %s in %s", name, t)
		}
		s := fv.sortOf(t)
		_ = named
		return Term{S: fmt.Sprintf("(%s_%s %s)", s, symName(name), v.S), Sort: fv.sortOf(f.Type()), T: f.Type()}
	}
	fv.sfail("field %s of non-struct %s", name, t)
	return Term{}
}

// shorten gives a long slice-valued term a name (a global definition), so that contracts which mention q.data
// dozens of times stay readable for the solvers' pattern matching.
func (fv *FV) shorten(t Term, hint string) Term {
	if t.Sort != sSlice || len(t.S) < 24 || strings.Contains(t.S, "?") {
		return t
	}
	if fv.termNames == nil {
		fv.termNames = map[string]string{}
	}
	if c, ok := fv.termNames[t.S]; ok {
		t.S = c
		return t
	}
	c := fv.fresh(hint, t.Sort)
	fv.axioms = append(fv.axioms, eq(c, t.S))
	fv.termNames[t.S] = c
	t.S = c
	return t
}

func (fv *FV) ghostField(named *types.Named, name string) string {
	if named == nil {
		return ""
	}
	pc := fv.w.contracts[pkgPathOf(named.Obj())]
	if pc == nil {
		pc = fv.w.libc[pkgPathOf(named.Obj())]
	}
	if pc == nil {
		return ""
	}
	return pc.GhostFlds[named.Obj().Name()+"."+name]
}

func (fv *FV) ghostFieldTerm(st *State, named *types.Named, name, tyText string, v Term) Term {
	key := "F:" + shortPkg(pkgPathOf(named.Obj())) + "." + named.Obj().Name() + "." + name + "$ghost"
	env := &Env{fv: fv, st: st, pc: fv.pc, scopePkg: fv.pkg}
	// the type text may mention the type parameters of the declared type: bind them to the actual type arguments
	if tps, tas := named.Origin().TypeParams(), named.TypeArgs(); tps != nil && tas != nil {
		env.tsubst = map[string]types.Type{}
		for i := 0; i < tps.Len() && i < tas.Len(); i++ {
			env.tsubst[tps.At(i).Obj().Name()] = tas.At(i)
		}
	}
	t := fv.resolveType(env, tyText)
	fs := fv.sortOf(t)
	fv.compSort[key] = arr(sInt, fs)
	return Term{S: sel(fv.heapGet(st, key), v.S), Sort: fs, T: t}
}

func structOf(t types.Type) (*types.Named, *types.Struct) {
	t = types.Unalias(t)
	n, _ := t.(*types.Named)
	s, _ := t.Underlying().(*types.Struct)
	return n, s
}

func findField(s *types.Struct, name string) *types.Var {
	for i := 0; i < s.NumFields(); i++ {
		if s.Field(i).Name() == name {
			return s.Field(i)
		}
	}
	return nil
}

// indexTerm reads a[i] for a slice, string, ghost map or Go map (no bounds obligation: callers add those).
func (fv *FV) indexTerm(st *State, a, i Term) Term {
	switch {
	case a.Sort == sSlice:
		et := elemType(a.T)
		if et == nil {
			fv.sfail("indexing a slice of unknown element type: %s", a.S)
		}
		key, _ := fv.elemComp(et)
		if i.Sort != sInt {
			fv.sfail("slice index must be an int")
		}
		return Term{S: sel(sel(fv.heapGet(st, key), "(sbase "+a.S+")"), elemAddr(a.S, i.S)), Sort: fv.sortOf(et), T: et}
	case a.Sort == sStr:
		return Term{S: fmt.Sprintf("(strdata (strbase %s) (+ (stroff %s) %s))", a.S, a.S, i.S), Sort: sBV8, T: types.Typ[types.Uint8]}
	case strings.HasPrefix(a.Sort, "(Array "):
		var et types.Type
		if stt, ok := a.T.(*specType); ok {
			et = stt.elem
		}
		if mt, ok := a.T.(*types.Map); ok {
			et = mt.Elem()
		}
		_, es := arraySorts(a.Sort)
		idx := i
		is, _ := arraySorts(a.Sort)
		if idx.Sort != is {
			idx, _ = fv.coerce(idx, Term{Sort: is})
		}
		if idx.Sort != is {
			fv.sfail("index sort %s does not match map key sort %s", idx.Sort, is)
		}
		return Term{S: sel(a.S, idx.S), Sort: es, T: et}
	}
	if mt, ok := underMap(a.T); ok {
		return fv.mapRead(st, a, i, mt)
	}
	fv.sfail("cannot index %s : %s", a.S, a.Sort)
	return Term{}
}

func underMap(t types.Type) (*types.Map, bool) {
	if t == nil {
		return nil, false
	}
	m, ok := t.Underlying().(*types.Map)
	return m, ok
}

// arraySorts splits "(Array I E)" into I and E.
func arraySorts(s string) (string, string) {
	if !strings.HasPrefix(s, "(Array ") {
		return "", ""
	}
	body := s[7 : len(s)-1]
	d := 0
	for k := 0; k < len(body); k++ {
		switch body[k] {
		case '(':
			d++
		case ')':
			d--
		case ' ':
			if d == 0 {
				return body[:k], body[k+1:]
			}
		}
	}
	return "", ""
}

func elemType(t types.Type) types.Type {
	if t == nil {
		return nil
	}
	t = types.Unalias(t)
	if tp, ok := t.(*types.TypeParam); ok {
		if ct := coreType(tp); ct != nil {
			t = ct
		}
	}
	if s, ok := t.Underlying().(*types.Slice); ok {
		return s.Elem()
	}
	if a, ok := t.Underlying().(*types.Array); ok {
		return a.Elem()
	}
	return nil
}

func (fv *FV) sliceTerm(a, lo, hi, max Term) Term {
	if a.Sort == sStr {
		h := "(strlen " + a.S + ")"
		if hi.S != "" {
			h = hi.S
		}
		return Term{S: fmt.Sprintf("(mk-str (strbase %s) (+ (stroff %s) %s) (- %s %s))", a.S, a.S, lo.S, h, lo.S), Sort: sStr, T: a.T}
	}
	if a.Sort != sSlice {
		fv.sfail("slicing a non-slice")
	}
	h := "(slen " + a.S + ")"
	if hi.S != "" {
		h = hi.S
	}
	c := "(scap " + a.S + ")"
	if max.S != "" {
		c = max.S
	}
	return Term{S: fmt.Sprintf("(mk-slice (sbase %s) (+ (soff %s) %s) (- %s %s) (- %s %s))", a.S, a.S, lo.S, h, lo.S, c, lo.S), Sort: sSlice, T: a.T}
}

func (fv *FV) specQuant(env *Env, q *SQuant) Term {
	if q.Lambda {
		// lambda k int :: e — a new ghost map defined pointwise (such a map exists, so the definition is sound)
		if len(q.Vars) != 1 || env.qdepth != 0 {
			fv.sfail("lambda takes one variable and cannot be nested in a quantifier")
		}
		e2, binders := fv.bindQuant(env, q)
		body := fv.spec(e2, q.Body)
		a := fv.fresh("lam", arr(sInt, body.Sort))
		k := fmt.Sprintf("%s?q%d", q.Vars[0].Name, env.qdepth+1)
		fv.define(env.st, fmt.Sprintf("(forall (%s) (! (= (select %s %s) %s) :pattern ((select %s %s))))", binders, a, k, body.S, a, k))
		return Term{S: a, Sort: arr(sInt, body.Sort), T: &specType{sort: arr(sInt, body.Sort), elem: body.T}}
	}
	e2, binders := fv.bindQuant(env, q)
	body := fv.specBool(e2, q.Body)
	pats := fv.quantPatterns(e2, q)
	k := "exists"
	if q.Forall {
		k = "forall"
	}
	if pats != "" {
		body = "(! " + body + " " + pats + ")"
	}
	return Term{S: fmt.Sprintf("(%s (%s) %s)", k, binders, body), Sort: sBool}
}

func (fv *FV) lenTerm(st *State, v Term) Term {
	switch {
	case v.Sort == sSlice:
		return Term{S: "(slen " + v.S + ")", Sort: sInt, T: types.Typ[types.Int]}
	case v.Sort == sStr:
		return Term{S: "(strlen " + v.S + ")", Sort: sInt, T: types.Typ[types.Int]}
	}
	if _, ok := underMap(v.T); ok {
		return fv.mapLen(st, v)
	}
	fv.sfail("len of %s : %s", v.S, v.Sort)
	return Term{}
}

func (fv *FV) specCall(env *Env, c *SCall) Term {
	args := func() []Term {
		var out []Term
		for _, a := range c.Args {
			out = append(out, fv.spec(env, a))
		}
		return out
	}
	need := func(n int) {
		if len(c.Args) != n {
			fv.sfail("%s expects %d argument(s)", c.Fn, n)
		}
	}
	switch c.Fn {
	case "old":
		need(1)
		if env.old == nil {
			fv.sfail("old() is not available here")
		}
		n := *env
		n.st = env.old
		if env.oldNames != nil {
			n.names = env.oldNames
		}
		return fv.spec(&n, c.Args[0])
	case "len":
		need(1)
		return fv.lenTerm(env.st, fv.spec(env, c.Args[0]))
	case "cap":
		need(1)
		v := fv.spec(env, c.Args[0])
		return Term{S: "(scap " + v.S + ")", Sort: sInt, T: types.Typ[types.Int]}
	case "ite":
		need(3)
		cnd := fv.specBool(env, c.Args[0])
		a, b := fv.coerce(fv.spec(env, c.Args[1]), fv.spec(env, c.Args[2]))
		if a.Sort != b.Sort {
			fv.sfail("ite branches of different sorts")
		}
		r := a
		r.S = ite(cnd, a.S, b.S)
		r.Lit = false
		return r
	case "min", "max":
		need(2)
		a := args()
		op := "<="
		if c.Fn == "max" {
			op = ">="
		}
		return Term{S: ite(app(op, a[0].S, a[1].S), a[0].S, a[1].S), Sort: sInt, T: types.Typ[types.Int]}
	case "abs":
		need(1)
		a := args()
		return Term{S: ite(app(">=", a[0].S, "0"), a[0].S, app("-", a[0].S)), Sort: sInt, T: types.Typ[types.Int]}
	case "fresh":
		need(1)
		v := fv.spec(env, c.Args[0])
		r := v.S
		if v.Sort == sSlice {
			r = "(sbase " + v.S + ")"
		}
		if env.old == nil {
			fv.sfail("fresh() needs an old state")
		}
		return Term{S: and(not(eq(r, "0")), not(sel(fv.allocTerm(env.old), r)), sel(fv.allocTerm(env.st), r)), Sort: sBool}
	case "allocated":
		need(1)
		v := fv.spec(env, c.Args[0])
		r := v.S
		if v.Sort == sSlice {
			r = "(sbase " + v.S + ")"
		}
		return Term{S: sel(fv.allocTerm(env.st), r), Sort: sBool}
	case "unchanged":
		var cs []string
		for _, a := range c.Args {
			cs = append(cs, fv.unchanged(env, a))
		}
		return Term{S: and(cs...), Sort: sBool}
	case "unchanged_outside":
		// every element of the backing array of s outside the window [off, off+len) is as in the old state
		need(1)
		if env.old == nil {
			fv.sfail("unchanged_outside() needs an old state")
		}
		on := *env
		on.st = env.old
		if env.oldNames != nil {
			on.names = env.oldNames
		}
		s := fv.spec(&on, c.Args[0])
		et := elemType(s.T)
		key, _ := fv.elemComp(et)
		lo, hi := "(soff "+s.S+")", "(+ (soff "+s.S+") (slen "+s.S+"))"
		return Term{S: fv.outsideUnchanged(sel(fv.heapGet(env.st, key), "(sbase "+s.S+")"), sel(fv.heapGet(env.old, key), "(sbase "+s.S+")"), lo, hi, env.qdepth), Sort: sBool}
	case "old_arrays_unchanged":
		// every backing array (of the element type of the argument) that was allocated in the old state is unchanged
		need(1)
		if env.old == nil {
			fv.sfail("old_arrays_unchanged() needs an old state")
		}
		s := fv.spec(env, c.Args[0])
		et := elemType(s.T)
		if et == nil {
			fv.sfail("old_arrays_unchanged() of a non-slice")
		}
		key, _ := fv.elemComp(et)
		b := fmt.Sprintf("b?u%d", env.qdepth+1)
		now := sel(fv.heapGet(env.st, key), b)
		return Term{S: fmt.Sprintf("(forall ((%s Int)) (! (=> (select %s %s) (= %s %s)) :pattern (%s)))", b, fv.allocTerm(env.old), b, now, sel(fv.heapGet(env.old, key), b), now), Sort: sBool}
	case "old_maps_unchanged":
		// every map (of the type of the argument) that was allocated in the old state has the keys and values it had
		need(1)
		if env.old == nil {
			fv.sfail("old_maps_unchanged() needs an old state")
		}
		m := fv.spec(env, c.Args[0])
		mt, ok := underMap(m.T)
		if !ok {
			fv.sfail("old_maps_unchanged() of a non-map")
		}
		mc := fv.mapInfo(mt)
		b := fmt.Sprintf("b?u%d", env.qdepth+1)
		var cs []string
		for _, key := range []string{mc.dom, mc.val} {
			now := sel(fv.heapGet(env.st, key), b)
			cs = append(cs, fmt.Sprintf("(forall ((%s Int)) (! (=> (select %s %s) (= %s %s)) :pattern (%s)))", b, fv.allocTerm(env.old), b, now, sel(fv.heapGet(env.old, key), b), now))
		}
		return Term{S: and(cs...), Sort: sBool}
	case "other_arrays_unchanged":
		// every backing array allocated in the old state, except the one of the argument (as it was), is unchanged
		need(1)
		if env.old == nil {
			fv.sfail("other_arrays_unchanged() needs an old state")
		}
		on := *env
		on.st = env.old
		if env.oldNames != nil {
			on.names = env.oldNames
		}
		sl := fv.spec(&on, c.Args[0])
		et := elemType(sl.T)
		if et == nil {
			fv.sfail("other_arrays_unchanged() of a non-slice")
		}
		key, _ := fv.elemComp(et)
		b := fmt.Sprintf("b?u%d", env.qdepth+1)
		now := sel(fv.heapGet(env.st, key), b)
		return Term{S: fmt.Sprintf("(forall ((%s Int)) (! (=> (and (select %s %s) (not (= %s (sbase %s)))) (= %s %s)) :pattern (%s)))", b, fv.allocTerm(env.old), b, b, sl.S, now, sel(fv.heapGet(env.old, key), b), now), Sort: sBool}
	case "ord":
		need(3)
		a := args()
		return fv.ordTerm(a[0], a[1], a[2])
	case "rank":
		// rank(cmp, v): the integer rank whose comparison is ord(cmp, ·, ·)
		need(2)
		a := args()
		fv.ordTerm(a[0], a[1], a[1]) // declares ord and its rank function for this sort
		return Term{S: app("ordrank$"+cleanName(a[1].Sort), a[0].S, a[1].S), Sort: sInt, T: types.Typ[types.Int]}
	case "holds":
		need(2)
		a := args()
		return fv.predTerm(a[0], a[1])
	case "eqf":
		need(3)
		a := args()
		return fv.eqfTerm(a[0], a[1], a[2])
	case "eqv":
		need(3)
		a := args()
		return fv.eqvTerm(a[0], a[1], a[2])
	case "streq":
		// content equality of two strings (what Go's == on strings decides)
		need(2)
		a := args()
		return Term{S: fv.strEq(a[0], a[1]), Sort: sBool}
	case "ncalls":
		need(1)
		return Term{S: fv.heapGet(env.st, fv.callsComp("len", "")), Sort: sInt, T: types.Typ[types.Int]}
	case "callarg":
		need(2)
		f := fv.spec(env, c.Args[0])
		k := fv.spec(env, c.Args[1])
		at := fv.yieldArgType(f)
		return Term{S: sel(fv.heapGet(env.st, fv.callsComp("arg", fv.sortOf(at))), k.S), Sort: fv.sortOf(at), T: at}
	case "callret":
		need(2)
		k := fv.spec(env, c.Args[1])
		return Term{S: sel(fv.heapGet(env.st, fv.callsComp("ret", "")), k.S), Sort: sBool}
	case "cmp3":
		// three-way comparison as cmp.Compare defines it: exact on integers, an uninterpreted function with the
		// range {-1,0,1} on strings
		need(2)
		a := args()
		x, y := fv.coerce(a[0], a[1])
		if x.Sort == sInt {
			return Term{S: ite(app("<", x.S, y.S), "(- 1)", ite(app(">", x.S, y.S), "1", "0")), Sort: sInt, T: types.Typ[types.Int]}
		}
		if x.Sort == sStr {
			fv.declare("strcmp3", "(declare-fun strcmp3 (Str Str) Int)")
			if !fv.declared["strcmp3ax"] {
				fv.declared["strcmp3ax"] = true
				fv.axioms = append(fv.axioms, "(forall ((a Str) (b Str)) (! (and (<= (- 1) (strcmp3 a b)) (<= (strcmp3 a b) 1)) :pattern ((strcmp3 a b))))")
				fv.assumptions["cmp.Compare on strings is an uninterpreted three-way comparison with range {-1,0,1}"] = true
			}
			return Term{S: app("strcmp3", x.S, y.S), Sort: sInt, T: types.Typ[types.Int]}
		}
		fv.sfail("cmp3 on sort %s", x.Sort)
	case "clz64":
		// number of leading zero bits of a 64-bit value, as an exact 65-way case split (Int result)
		need(1)
		a := args()
		if a[0].Sort != sBV64 {
			fv.sfail("clz64 of %s", a[0].Sort)
		}
		r := "64"
		for k := 63; k >= 0; k-- {
			// clz == k iff value >= 2^(63-k) (and smaller than the next power)
			r = ite(app("bvuge", a[0].S, fmt.Sprintf("(_ bv%d 64)", uint64(1)<<uint(63-k))), fmt.Sprint(k), r)
		}
		return Term{S: r, Sort: sInt, T: types.Typ[types.Int]}
	case "mask64":
		// MaxUint64 >> k for an Int k in 0..64 (0 beyond)
		need(1)
		a := args()
		r := "(_ bv0 64)"
		for k := 63; k >= 0; k-- {
			r = ite(eq(a[0].S, fmt.Sprint(k)), fmt.Sprintf("(_ bv%d 64)", ^uint64(0)>>uint(k)), r)
		}
		return Term{S: r, Sort: sBV64, T: types.Typ[types.Uint64]}
	case "pow2bv":
		// 1 << k as a 64-bit value for an Int k (0 for k >= 64)
		need(1)
		a := args()
		r := "(_ bv0 64)"
		for k := 63; k >= 0; k-- {
			r = ite(eq(a[0].S, fmt.Sprint(k)), fmt.Sprintf("(_ bv%d 64)", uint64(1)<<uint(k)), r)
		}
		return Term{S: r, Sort: sBV64, T: types.Typ[types.Uint64]}
	case "bv64":
		need(1)
		a := args()
		if a[0].Sort == sBV64 {
			return a[0]
		}
		return Term{S: fmt.Sprintf("((_ int2bv 64) %s)", a[0].S), Sort: sBV64, T: types.Typ[types.Uint64]}
	case "locked":
		need(1)
		a := args()
		fv.heldDecl()
		return Term{S: sel(fv.heapGet(env.st, "L:held"), a[0].S), Sort: sBool}
	case "tlen":
		// tlen(trace): number of recorded calls of the traced callback
		need(1)
		id, ok := c.Args[0].(*SIdent)
		if !ok {
			fv.sfail("tlen(traceName)")
		}
		key := "T:" + id.Name + ":n"
		fv.compSort[key] = sInt
		return Term{S: fv.heapGet(env.st, key), Sort: sInt, T: types.Typ[types.Int]}
	case "targ":
		// targ(trace, j, i): j-th argument of the i-th recorded call
		need(3)
		id, ok := c.Args[0].(*SIdent)
		if !ok {
			fv.sfail("targ(traceName, j, i)")
		}
		j, ok := c.Args[1].(*SInt)
		if !ok {
			fv.sfail("targ: argument position must be a literal")
		}
		i := fv.spec(env, c.Args[2])
		fv.declareTrace(id.Name)
		pre := "T:" + id.Name + ":" + j.V + ":"
		for key, srt := range fv.compSort {
			if strings.HasPrefix(key, pre) {
				_, es := arraySorts(srt)
				return Term{S: sel(fv.heapGet(env.st, key), i.S), Sort: es, T: fv.traceTypes[key]}
			}
		}
		fv.sfail("trace %s has no recorded argument %s yet (the traced callback is not called in this function)", id.Name, j.V)
	case "apply1", "apply":
		// apply(f, x…): result of a pure callback (role `pure`)
		a := args()
		if len(a) < 2 {
			fv.sfail("apply(f, args…)")
		}
		return fv.pureApp(a[0], a[1:])
	case "strhas":
		// strhas(s, b): the byte b occurs in the string s; for a literal s a finite disjunction
		need(2)
		a := args()
		b, _ := fv.coerce(a[1], Term{Sort: sBV8})
		if lit, ok := fv.strLits[a[0].S]; ok {
			var ds []string
			seen := map[byte]bool{}
			for i := 0; i < len(lit); i++ {
				if !seen[lit[i]] {
					seen[lit[i]] = true
					ds = append(ds, eq(b.S, fmt.Sprintf("(_ bv%d 8)", lit[i])))
				}
			}
			return Term{S: or(ds...), Sort: sBool}
		}
		k := fmt.Sprintf("k?u%d", env.qdepth+1)
		return Term{S: fmt.Sprintf("(exists ((%s Int)) (and (<= 0 %s) (< %s (strlen %s)) (= (strdata (strbase %s) (+ (stroff %s) %s)) %s)))", k, k, k, a[0].S, a[0].S, a[0].S, k, b.S), Sort: sBool}
	case "snap":
		// snap(s): the backing array of slice s as a ghost value (index = position in the backing array)
		need(1)
		a := args()
		et := elemType(a[0].T)
		if et == nil {
			fv.sfail("snap() of a non-slice")
		}
		key, _ := fv.elemComp(et)
		es := fv.sortOf(et)
		return Term{S: sel(fv.heapGet(env.st, key), "(sbase "+a[0].S+")"), Sort: arr(sInt, es), T: &specType{sort: arr(sInt, es), elem: et}}
	case "oldelem":
		// oldelem(s, i): element i of slice s in the old heap; s is evaluated in the old state, i in the current one
		need(2)
		if env.old == nil {
			fv.sfail("oldelem() needs an old state")
		}
		on := *env
		on.st = env.old
		if env.oldNames != nil {
			on.names = env.oldNames
		}
		sl := fv.spec(&on, c.Args[0])
		ix := fv.spec(env, c.Args[1])
		return fv.indexTerm(env.old, sl, ix)
	case "addr":
		// addr(s, k): the position of s[k] in the backing array of s, in the shape element reads have (at$, fv.go)
		need(2)
		s := fv.spec(env, c.Args[0])
		k := fv.spec(env, c.Args[1])
		if s.Sort != sSlice || k.Sort != sInt {
			fv.sfail("addr(slice, int)")
		}
		return Term{S: elemAddr(s.S, k.S), Sort: sInt}
	case "backing":
		need(2)
		s := fv.spec(env, c.Args[0])
		k := fv.spec(env, c.Args[1])
		if s.Sort == sSlice && !strings.Contains(k.S, "?") && !strings.Contains(s.S, "?") {
			fv.omarkDecl()
			fv.axioms = append(fv.axioms, app("omark", elemAddr(s.S, k.S)))
		}
		return fv.indexTerm(env.st, s, k)
	case "bag":
		a := args()
		var lo, hi string
		switch len(a) {
		case 1:
			lo, hi = "0", "(slen "+a[0].S+")"
		case 3:
			lo, hi = a[1].S, a[2].S
		default:
			fv.sfail("bag(s) or bag(s, lo, hi)")
		}
		return fv.bagTerm(env.st, a[0], lo, hi)
	case "abag", "bagstep":
		// abag(A, lo, hi): the multiset of A[lo..hi) for a ghost array A (snap(s): absolute positions), the very term
		// bag(s, lo', hi') denotes for the slice over that array. bagstep(A, lo, h) is `true` and records the
		// defining equation of the range multiset at h (abag(A, lo, h) is abag(A, lo, h-1) plus A[h-1] when lo < h);
		// the ghost assert or lemma hint it occurs in assumes the recorded instance (trusted, listed).
		need(3)
		a := args()
		is, es := arraySorts(a[0].Sort)
		st0, _ := a[0].T.(*specType)
		if is != sInt || st0 == nil || st0.elem == nil {
			fv.sfail("%s: a ghost array (snap(s)) expected", c.Fn)
		}
		name, bs := fv.bagDecl(es)
		bagAt := func(hi string) string { return app(name, a[0].S, a[1].S, hi) }
		if c.Fn == "abag" {
			return Term{S: bagAt(a[2].S), Sort: bs, T: &specType{sort: bs, elem: st0.elem}}
		}
		if env.qdepth != 0 {
			fv.sfail("bagstep under a quantifier")
		}
		prev := bagAt(app("-", a[2].S, "1"))
		last := sel(a[0].S, app("-", a[2].S, "1"))
		fv.pendingFacts = append(fv.pendingFacts, implies(app("<", a[1].S, a[2].S), eq(bagAt(a[2].S), sto(prev, last, app("+", sel(prev, last), "1")))))
		fv.assumptions["multisets: bagstep(A, lo, h) instances of the defining equation of a range multiset (the range up to h is the range up to h-1 plus the element at h-1) are assumed where a contract names them"] = true
		return Term{S: "true", Sort: sBool}
	case "bagadd":
		need(2)
		a := args()
		return Term{S: sto(a[0].S, a[1].S, app("+", sel(a[0].S, a[1].S), "1")), Sort: a[0].Sort, T: a[0].T}
	case "count":
		need(2)
		a := args()
		return Term{S: sel(a[0].S, a[1].S), Sort: sInt}
	case "in":
		need(2)
		a := args()
		return fv.inTerm(env.st, a[0], a[1])
	case "implies":
		need(2)
		return Term{S: implies(fv.specBool(env, c.Args[0]), fv.specBool(env, c.Args[1])), Sort: sBool}
	case "isnil":
		need(1)
		a := args()
		if a[0].Sort == sSlice {
			return Term{S: eq("(sbase "+a[0].S+")", "0"), Sort: sBool}
		}
		return Term{S: eq(a[0].S, "0"), Sort: sBool}
	case "int":
		need(1)
		a := args()
		if isBV(a[0].Sort) {
			return Term{S: app("bv2nat", a[0].S), Sort: sInt, T: types.Typ[types.Int]}
		}
		return a[0]
	case "ediv":
		need(2)
		a := args()
		if isIntLit(a[1].S) && a[1].S != "0" && !strings.Contains(a[0].S, "?") {
			// ground Euclidean division by a literal: name quotient and remainder and state the defining facts
			// (the solvers do not derive 2*(x div 2) <= x < 2*(x div 2)+2 eagerly enough for the heap proofs)
			key := "ediv\x00" + a[0].S + "\x00" + a[1].S
			if fv.divCache == nil {
				fv.divCache = map[string][2]string{}
			}
			c, ok := fv.divCache[key]
			if !ok {
				q := fv.fresh("ediv", sInt)
				r := fv.fresh("emod", sInt)
				fv.axioms = append(fv.axioms, and(eq(q, app("div", a[0].S, a[1].S)), eq(a[0].S, app("+", app("*", a[1].S, q), r)), app("<=", "0", r), app("<", r, a[1].S)))
				c = [2]string{q, r}
				fv.divCache[key] = c
			}
			return Term{S: c[0], Sort: sInt, T: types.Typ[types.Int]}
		}
		return Term{S: app("div", a[0].S, a[1].S), Sort: sInt, T: types.Typ[types.Int]}
	case "emod":
		need(2)
		a := args()
		return Term{S: app("mod", a[0].S, a[1].S), Sort: sInt, T: types.Typ[types.Int]}
	case "upd":
		need(3)
		a := args()
		is, es := arraySorts(a[0].Sort)
		if is == "" {
			fv.sfail("upd on a non-map")
		}
		k, _ := fv.coerce(a[1], Term{Sort: is})
		v, _ := fv.coerce(a[2], Term{Sort: es})
		if k.Sort != is || v.Sort != es {
			fv.sfail("upd: sorts %s/%s do not match map %s", k.Sort, v.Sort, a[0].Sort)
		}
		return Term{S: sto(a[0].S, k.S, v.S), Sort: a[0].Sort, T: a[0].T}
	case "elemptr":
		need(2)
		a := args()
		return fv.elemPtr(a[0], a[1])
	case "load64":
		need(2)
		a := args()
		return fv.load64(env.st, a[0], a[1].S)
	}
	if t, ok := fv.specSetOps(env, c); ok {
		return t
	}
	sf := fv.lookupSpecFunc(env, c.Fn)
	if sf == nil {
		fv.sfail("unknown spec function %q", c.Fn)
	}
	if len(sf.Params) != len(c.Args) {
		fv.sfail("%s expects %d arguments", c.Fn, len(sf.Params))
	}
	a := args()
	if sf.Body == nil {
		return fv.uninterp(env, sf, a)
	}
	if env.depth > 40 {
		fv.sfail("spec function expansion too deep (recursive?): %s", c.Fn)
	}
	return fv.spec(fv.expandEnv(env, sf, a), sf.Body)
}

// expandEnv: macro expansion environment — parameters bound to argument terms; heap = current env state.
func (fv *FV) expandEnv(env *Env, sf *SpecFunc, a []Term) *Env {
	n := &Env{fv: fv, st: env.st, old: env.old, names: map[string]Term{}, pc: sf.Pkg, depth: env.depth + 1, qdepth: env.qdepth, results: nil, scopePkg: nil, tsubst: env.tsubst}
	for i, p := range sf.Params {
		at := a[i]
		if at.Lit && at.Sort == sInt && (p.Type == "byte") {
			at, _ = fv.coerce(at, Term{Sort: sBV8})
		}
		n.names[p.Name] = at
	}
	// a definition from another package names its own type parameters (`*node[T]`): bind them from the arguments,
	// so that quantifier types inside the body resolve to the instances in use here
	if sf.Pkg != nil && fv.pc != nil && sf.Pkg != fv.pc {
		ts := map[string]types.Type{}
		for k, v := range env.tsubst {
			ts[k] = v
		}
		for i, p := range sf.Params {
			if i >= len(a) || a[i].T == nil || !strings.Contains(p.Type, "[") {
				continue
			}
			t := a[i].T
			if pt, ok := t.Underlying().(*types.Pointer); ok {
				t = pt.Elem()
			}
			if nt, ok := types.Unalias(t).(*types.Named); ok && nt.TypeArgs() != nil {
				tps := nt.Origin().TypeParams()
				for j := 0; j < tps.Len() && j < nt.TypeArgs().Len(); j++ {
					ts[tps.At(j).Obj().Name()] = nt.TypeArgs().At(j)
				}
			}
		}
		n.tsubst = ts
	}
	if env.oldNames != nil {
		n.oldNames = n.names
	}
	return n
}

// splitConj translates a boolean contract expression into a list of conjuncts (so that each becomes its own
// obligation): top-level &&, predicate calls, the right side of ==>, and bodies of forall are split.
var cumulativeConj = os.Getenv("GOVC_CUMUL") != ""

func (fv *FV) splitConj(env *Env, e SExpr) []string {
	switch x := e.(type) {
	case *SBin:
		switch x.Op {
		case "&&":
			l := fv.splitConj(env, x.L)
			r := fv.splitConj(env, x.R)
			if cumulativeConj {
				// A && B is proved as A, then A ==> B: the later conjunct may use the earlier ones (and the terms
				// they mention) at the same binding of the enclosing quantifiers
				a := fv.specBool(env, x.L)
				for i := range r {
					r[i] = implies(a, r[i])
				}
			}
			return append(l, r...)
		case "==>":
			a := fv.specBool(env, x.L)
			var out []string
			for _, p := range fv.splitConj(env, x.R) {
				out = append(out, implies(a, p))
			}
			return out
		}
	case *SCall:
		if sf := fv.lookupSpecFunc(env, x.Fn); sf != nil && sf.Body != nil && sf.IsPred && len(sf.Params) == len(x.Args) && env.depth < 40 {
			var a []Term
			for _, arg := range x.Args {
				a = append(a, fv.spec(env, arg))
			}
			return fv.splitConj(fv.expandEnv(env, sf, a), sf.Body)
		}
	case *SQuant:
		if x.Forall {
			e2, binders := fv.bindQuant(env, x)
			pats := fv.quantPatterns(e2, x)
			var out []string
			for _, p := range fv.splitConj(e2, x.Body) {
				body := p
				if pats != "" {
					body = "(! " + p + " " + pats + ")"
				}
				out = append(out, fmt.Sprintf("(forall (%s) %s)", binders, body))
			}
			return out
		}
	}
	return []string{fv.specBool(env, e)}
}

func (fv *FV) bindQuant(env *Env, q *SQuant) (*Env, string) {
	e2 := env
	var binders []string
	for _, v := range q.Vars {
		t := fv.resolveType(env, v.Type)
		s := fv.sortOf(t)
		// canonical names (variable + nesting depth): alpha-equivalent formulas become syntactically identical,
		// which the solvers need to recognise `old(P) ==> P`-style invariants whose P is quantified
		name := fmt.Sprintf("%s?q%d", v.Name, e2.qdepth+1)
		binders = append(binders, fmt.Sprintf("(%s %s)", name, s))
		e2 = e2.with(v.Name, Term{S: name, Sort: s, T: t})
		e2.qdepth++
	}
	return e2, strings.Join(binders, " ")
}

func (fv *FV) quantPatterns(e2 *Env, q *SQuant) string {
	var pats []string
	for _, tr := range q.Trig {
		// {weight(N)}: instantiation weight — instances of this quantifier count N generations older than they
		// are, which bounds how deep a recursive structure invariant is unfolded eagerly
		if len(tr) == 1 {
			if c, ok := tr[0].(*SCall); ok && c.Fn == "weight" && len(c.Args) == 1 {
				if n, ok := c.Args[0].(*SInt); ok {
					pats = append(pats, fmt.Sprintf(":weight %v", n.V))
					continue
				}
			}
		}
		var ts []string
		for _, t := range tr {
			tt := fv.spec(e2, t)
			ts = append(ts, tt.S)
			// remembered for skolemizeGoal: when this quantifier is a goal, its trigger terms at the skolem constants
			// are kept alive in the query, so that hypotheses with the same triggers fire there
			if fv.trigSorts == nil {
				fv.trigSorts = map[string]string{}
			}
			if n, ok := parseSx(tt.S); ok {
				fv.trigSorts[n.String()] = tt.Sort
			}
		}
		pats = append(pats, ":pattern ("+strings.Join(ts, " ")+")")
	}
	return strings.Join(pats, " ")
}

// uninterp applies an uninterpreted spec function.
func (fv *FV) uninterp(env *Env, sf *SpecFunc, a []Term) Term {
	penv := &Env{fv: fv, st: env.st, pc: sf.Pkg, scopePkg: nil}
	rt := fv.resolveType(penv, sf.RetType)
	rs := fv.sortOf(rt)
	var ps, as []string
	name := "sf$" + sf.Name
	for i, p := range sf.Params {
		s := a[i].Sort
		if a[i].Lit {
			pt := fv.resolveType(penv, p.Type)
			s = fv.sortOf(pt)
			a[i], _ = fv.coerce(a[i], Term{Sort: s})
		}
		ps = append(ps, s)
		as = append(as, a[i].S)
	}
	full := name + "$" + cleanName(strings.Join(ps, "_"))
	fv.declare(full, fmt.Sprintf("(declare-fun %s (%s) %s)", full, strings.Join(ps, " "), rs))
	if len(as) == 0 {
		return Term{S: full, Sort: rs, T: rt}
	}
	return Term{S: app(full, as...), Sort: rs, T: rt}
}

// unchanged(e): the value of e now equals its value in the old state. elems(x): the whole backing array.
func (fv *FV) unchanged(env *Env, a SExpr) string {
	if env.old == nil {
		fv.sfail("unchanged() needs an old state")
	}
	on := *env
	on.st = env.old
	if env.oldNames != nil {
		on.names = env.oldNames
	}
	if c, ok := a.(*SCall); ok && c.Fn == "elems" {
		// contents of the slice (as it was in the old state) are the same now
		s := fv.spec(&on, c.Args[0])
		et := elemType(s.T)
		key, _ := fv.elemComp(et)
		k := fmt.Sprintf("k?u%d", env.qdepth+1)
		now := sel(sel(fv.heapGet(env.st, key), "(sbase "+s.S+")"), elemAddr(s.S, k))
		was := sel(sel(fv.heapGet(env.old, key), "(sbase "+s.S+")"), elemAddr(s.S, k))
		return fmt.Sprintf("(forall ((%s Int)) (! (=> (and (<= 0 %s) (< %s (slen %s))) (= %s %s)) :pattern (%s)))", k, k, k, s.S, now, was, now)
	}
	now := fv.spec(env, a)
	was := fv.spec(&on, a)
	return fv.eqTerms(now, was)
}

// ---------------------------------------------------------------------------
// callbacks by role

func (fv *FV) ordTerm(f, a, b Term) Term {
	a, b = fv.coerce(a, b)
	if a.Sort != b.Sort {
		fv.sfail("ord on different sorts %s, %s", a.Sort, b.Sort)
	}
	name := "ord$" + cleanName(a.Sort)
	if !fv.declared[name] {
		fv.declared[name] = true
		s := a.Sort
		fv.decls = append(fv.decls, fmt.Sprintf("(declare-fun %s (Int %s %s) Int)", name, s, s))
		// A total preorder on the (finitely many) values of a Go type embeds in the integers: ord is the comparison
		// of ranks. Transitivity and antisymmetry are then linear arithmetic, with no instantiation cascade.
		rank := "ordrank$" + cleanName(a.Sort)
		fv.decls = append(fv.decls, fmt.Sprintf("(declare-fun %s (Int %s) Int)", rank, s))
		fv.axioms = append(fv.axioms,
			fmt.Sprintf("(forall ((f Int) (a %s) (b %s)) (! (and (= (< (%s f a b) 0) (< (%s f a) (%s f b))) (= (= (%s f a b) 0) (= (%s f a) (%s f b)))) :pattern ((%s f a b))))", s, s, name, rank, rank, name, rank, rank, name),
		)
		fv.assumptions["comparison callbacks are pure, deterministic total preorders (ord is the comparison of integer ranks; a total preorder on the finitely many values of a Go type embeds in the integers)"] = true
	}
	return Term{S: app(name, f.S, a.S, b.S), Sort: sInt, T: types.Typ[types.Int]}
}

func (fv *FV) predTerm(f, a Term) Term {
	name := "holds$" + cleanName(a.Sort)
	fv.declare(name, fmt.Sprintf("(declare-fun %s (Int %s) Bool)", name, a.Sort))
	fv.assumptions["predicate callbacks are pure and deterministic (uninterpreted function holds)"] = true
	return Term{S: app(name, f.S, a.S), Sort: sBool}
}

func (fv *FV) eqfTerm(f, a, b Term) Term {
	name := "eqf$" + cleanName(a.Sort) + "$" + cleanName(b.Sort)
	fv.declare(name, fmt.Sprintf("(declare-fun %s (Int %s %s) Bool)", name, a.Sort, b.Sort))
	fv.assumptions["equality callbacks are pure and deterministic (uninterpreted function eqf)"] = true
	return Term{S: app(name, f.S, a.S, b.S), Sort: sBool}
}

// eqvTerm: an equality callback with role `eqv` is an equivalence relation, encoded as equality of an uninterpreted
// class function (reflexivity, symmetry and transitivity are then congruence, with no axioms to instantiate).
func (fv *FV) eqvTerm(f, a, b Term) Term {
	a, b = fv.coerce(a, b)
	name := "eqcls$" + cleanName(a.Sort)
	fv.declare(name, fmt.Sprintf("(declare-fun %s (Int %s) Int)", name, a.Sort))
	fv.assumptions["equality callbacks with role eqv are pure, deterministic equivalence relations (equality of an uninterpreted class function)"] = true
	return Term{S: eq(app(name, f.S, a.S), app(name, f.S, b.S)), Sort: sBool}
}

// declareTrace makes the components of a ghost trace known before the traced callback is first called: the
// argument sorts come from the signature of the struct field that carries the role `trace NAME`.
func (fv *FV) declareTrace(name string) {
	if fv.pc == nil {
		return
	}
	for tf, role := range fv.pc.FieldRole {
		if role != "trace "+name {
			continue
		}
		dot := strings.Index(tf, ".")
		tname, fname := tf[:dot], tf[dot+1:]
		for obj := range fv.entry.vars {
			t := obj.Type()
			if p, ok := t.Underlying().(*types.Pointer); ok {
				t = p.Elem()
			}
			named, sty := structOf(t)
			if named == nil || sty == nil || named.Obj().Name() != tname {
				continue
			}
			f := findField(sty, fname)
			if f == nil {
				continue
			}
			sig, ok := f.Type().Underlying().(*types.Signature)
			if !ok {
				continue
			}
			for j := 0; j < sig.Params().Len(); j++ {
				pt := sig.Params().At(j).Type()
				ps := fv.sortOf(pt)
				key := fmt.Sprintf("T:%s:%d:%s", name, j, ps)
				if fv.compSort[key] == "" {
					fv.compSort[key] = arr(sInt, ps)
					fv.traceTypes[key] = pt
				}
			}
			fv.compSort["T:"+name+":n"] = sInt
			return
		}
	}
}

// pureApp: application of a callback with role `pure`: an uninterpreted function of the function value and the
// arguments (deterministic, no side effects: stated as an assumption).
func (fv *FV) pureApp(f Term, args []Term) Term {
	sig, ok := f.T.Underlying().(*types.Signature)
	if !ok || sig.Results().Len() != 1 {
		fv.sfail("apply1: %s is not a function with one result", f.S)
	}
	rt := sig.Results().At(0).Type()
	rs := fv.sortOf(rt)
	var ps, as []string
	for _, a := range args {
		ps = append(ps, a.Sort)
		as = append(as, a.S)
	}
	name := "app$" + cleanName(strings.Join(ps, "_")) + "$" + cleanName(rs)
	fv.declare(name, fmt.Sprintf("(declare-fun %s (Int %s) %s)", name, strings.Join(ps, " "), rs))
	fv.assumptions["callbacks with role `pure` are deterministic and free of side effects (uninterpreted function of their arguments)"] = true
	return Term{S: app(name, append([]string{f.S}, as...)...), Sort: rs, T: rt}
}

func (fv *FV) callsComp(part, sort string) string {
	key := "C:" + part
	switch part {
	case "len":
		fv.compSort[key] = sInt
		if !fv.declared["axiom:C:len>=0"] {
			fv.declared["axiom:C:len>=0"] = true
			fv.axioms = append(fv.axioms, app(">=", compConst(key), "0")) // a callback has been called a non-negative number of times
		}
	case "ret":
		fv.compSort[key] = arr(sInt, sBool)
	case "arg":
		key += ":" + sort
		fv.compSort[key] = arr(sInt, sort)
	}
	return key
}

func (fv *FV) yieldArgType(f Term) types.Type {
	if f.T != nil {
		if sig, ok := f.T.Underlying().(*types.Signature); ok && sig.Params().Len() >= 1 {
			return sig.Params().At(0).Type()
		}
	}
	fv.sfail("callarg: %s is not a function value with a parameter", f.S)
	return nil
}

// outsideUnchanged: every element of array `now` outside the window [lo, hi) equals that of `was`.
// The quantifier is triggered by a marker predicate omark(x) (axiomatised to be true everywhere) instead of by
// the array read: a trigger on the read fires on every access of the array and made unrelated queries
// 100x slower; with the marker the fact is instantiated only for indices somebody asks about — the skolem index
// of a frame goal (the goal carries omark itself) or an index named by backing(s, k).
func (fv *FV) outsideUnchanged(now, was, lo, hi string, qdepth int) string {
	fv.omarkDecl()
	x := fmt.Sprintf("x?u%d", qdepth+1)
	return fmt.Sprintf("(forall ((%s Int)) (! (=> (and (omark %s) (or (< %s %s) (>= %s %s))) (= (select %s %s) (select %s %s))) :pattern ((omark %s))))", x, x, x, lo, x, hi, now, x, was, x, x)
}

func (fv *FV) omarkDecl() {
	if !fv.declared["omark"] {
		fv.declared["omark"] = true
		fv.decls = append(fv.decls, "(declare-fun omark (Int) Bool)")
		fv.axioms = append(fv.axioms, "(forall ((x Int)) (! (omark x) :pattern ((omark x))))")
	}
}

// ---------------------------------------------------------------------------
// multisets: bag(s, lo, hi) as (Array Elem Int) with axioms (trusted, listed in evidence)

func (fv *FV) bagTerm(st *State, s Term, lo, hi string) Term {
	et := elemType(s.T)
	if et == nil {
		fv.sfail("bag of non-slice")
	}
	es := fv.sortOf(et)
	key, _ := fv.elemComp(et)
	name, bs := fv.bagDecl(es)
	a := sel(fv.heapGet(st, key), "(sbase "+s.S+")")
	off := "(soff " + s.S + ")"
	return Term{S: app(name, a, app("+", off, lo), app("+", off, hi)), Sort: bs, T: &specType{sort: bs, elem: et}}
}

func (fv *FV) bagDecl(es string) (string, string) {
	name := "bagof$" + cleanName(es)
	bs := arr(es, sInt)
	if !fv.declared[name] {
		fv.declared[name] = true
		as := arr(sInt, es)
		fv.decls = append(fv.decls, fmt.Sprintf("(declare-fun %s (%s Int Int) %s)", name, as, bs))
		fv.assumptions["multisets: bag() is an uninterpreted function; the engine emits ground instances of four multiset lemmas at the statements that need them (element store = point update of the bag of the slice's window; exchange of two elements keeps it; append adds the appended elements; copy transfers the bag; a range and the same range without its last element differ by that element). Quantified multiset axioms over arrays made unrelated queries diverge and are not used."] = true
		fv.bagSorts[es] = true
	}
	return name, bs
}

func (fv *FV) inTerm(st *State, x, m Term) Term {
	if mt, ok := underMap(m.T); ok {
		return Term{S: fv.mapHas(st, m, x, mt), Sort: sBool}
	}
	if strings.HasPrefix(m.Sort, "(Array ") {
		is, es := arraySorts(m.Sort)
		xx, _ := fv.coerce(x, Term{Sort: is})
		if es == sBool {
			return Term{S: sel(m.S, xx.S), Sort: sBool}
		}
	}
	fv.sfail("'in' on %s", m.Sort)
	return Term{}
}

// resolveForeignType resolves type text written in the contracts of another package (`*node[T]`, `Tree[T]`): the
// named type is looked up in that package, its type arguments through the current type-parameter bindings.
func (fv *FV) resolveForeignType(env *Env, text string) types.Type {
	text = strings.TrimSpace(text)
	if strings.HasPrefix(text, "*") {
		if t := fv.resolveForeignType(env, text[1:]); t != nil {
			return types.NewPointer(t)
		}
		return nil
	}
	tp := fv.w.allTypes[env.pc.Path]
	if tp == nil {
		return nil
	}
	name, argText := text, ""
	if k := strings.Index(text, "["); k > 0 && strings.HasSuffix(text, "]") {
		name, argText = text[:k], text[k+1:len(text)-1]
	}
	tn, ok := tp.Scope().Lookup(name).(*types.TypeName)
	if !ok {
		return nil
	}
	if argText == "" {
		return tn.Type()
	}
	var targs []types.Type
	depth, start := 0, 0
	for i := 0; i <= len(argText); i++ {
		if i == len(argText) || (argText[i] == ',' && depth == 0) {
			at := fv.resolveType(env, argText[start:i])
			if at == nil {
				return nil
			}
			targs = append(targs, at)
			start = i + 1
			continue
		}
		switch argText[i] {
		case '[':
			depth++
		case ']':
			depth--
		}
	}
	inst, err := types.Instantiate(nil, tn.Type(), targs, false)
	if err != nil {
		return nil
	}
	return inst
}
