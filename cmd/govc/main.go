package main

import (
	"flag"
	"fmt"
	"os"
	"sort"
	"strings"
	"time"
)

type Finding struct {
	Kind       string // "finding" or "fixed"
	Property   string
	Obligation string
	Region     string
	RegionExpr SExpr
	What       string
	Line       string
}

type funcResult struct {
	fi   *FuncInfo
	fv   *FV
	err  error
	secs float64
}

// verifyFuncs generates the obligations for the named functions (generation is sequential, solving parallel).
var devProp string

func verifyFuncs(w *World, names []string, findings []*Finding, tmo time.Duration, scratch string, verbose bool) []*funcResult {
	var out []*funcResult
	for _, n := range names {
		fi := w.byName[n]
		if fi == nil {
			out = append(out, &funcResult{err: fmt.Errorf("no such function %s", n)})
			continue
		}
		if fi.Contract != nil && fi.Contract.Trusted {
			continue
		}
		fv := newFV(w, fi)
		fv.findings = findings
		fv.prop = devProp
		t0 := time.Now()
		err := fv.verify()
		fv.finalizeQueries()
		out = append(out, &funcResult{fi: fi, fv: fv, err: err, secs: time.Since(t0).Seconds()})
	}
	// solve
	var all []*Obligation
	for _, r := range out {
		if r.fv != nil {
			all = append(all, r.fv.obls...)
		}
	}
	solveAll(scratch, all, tmo)
	return out
}

func main() {
	if len(os.Args) < 2 {
		fmt.Fprintln(os.Stderr, "usage: govc verify <pkg> [func…] | check <property> [--tier quick|thorough] | list")
		os.Exit(2)
	}
	switch os.Args[1] {
	case "verify":
		cmdVerify(os.Args[2:])
	case "check":
		os.Exit(cmdCheck(os.Args[2:]))
	case "replay":
		os.Exit(cmdReplay(os.Args[2:]))
	case "selftest":
		os.Exit(cmdSelftest(os.Args[2:]))
	default:
		fmt.Fprintln(os.Stderr, "unknown command", os.Args[1])
		os.Exit(2)
	}
}

func cmdVerify(args []string) {
	fs := flag.NewFlagSet("verify", flag.ExitOnError)
	tmo := fs.Int("t", 10, "timeout per obligation (s)")
	keep := fs.String("keep", "", "directory to keep SMT files of undischarged obligations")
	verbose := fs.Bool("v", false, "verbose")
	dump := fs.String("dump", "", "dump the query of the obligation with this name substring")
	fs.StringVar(&devProp, "prop", "", "verify the contract slice of this property only")
	fs.Parse(args)
	rest := fs.Args()
	if len(rest) == 0 {
		fmt.Fprintln(os.Stderr, "verify <pkg> [func…]")
		os.Exit(2)
	}
	pkg := rest[0]
	w, err := loadWorld([]string{pkg})
	if err != nil {
		fmt.Fprintln(os.Stderr, "load:", err)
		os.Exit(2)
	}
	var names []string
	if len(rest) > 1 {
		for _, f := range rest[1:] {
			names = append(names, pkg+"."+f)
		}
	} else {
		names = w.funcNames(pkg)
	}
	scratch := *keep
	if scratch == "" {
		scratch, _ = os.MkdirTemp("", "govc")
		defer os.RemoveAll(scratch)
	} else {
		os.MkdirAll(scratch, 0o755)
	}
	findings, _ := loadFindings()
	t0 := time.Now()
	res := verifyFuncs(w, names, findings, time.Duration(*tmo)*time.Second, scratch, *verbose)
	total, ok := 0, 0
	for _, r := range res {
		if r.err != nil {
			name := "?"
			if r.fi != nil {
				name = r.fi.FullName()
			}
			fmt.Printf("UNSUPPORTED %s: %v\n", name, r.err)
		}
		if r.fv == nil {
			continue
		}
		sort.SliceStable(r.fv.obls, func(i, j int) bool { return false })
		for _, o := range r.fv.obls {
			total++
			good := o.Result.Status == "unsat"
			if o.Vacuity {
				good = o.Result.Status != "unsat" && o.Result.Status != "error"
			}
			if good {
				ok++
				if *verbose {
					fmt.Printf("  ok   %-70s %s %.2fs\n", o.Name, o.Result.Solver, o.Result.Seconds)
				}
			} else {
				fmt.Printf("  FAIL %-70s %s %v   [%s] %s\n", o.Name, o.Result.Status, o.Result.All, o.Pos, o.Desc)
				if o.Result.Status == "error" {
					fmt.Println("       ", strings.TrimSpace(firstLines(o.Result.Output, 4)))
				}
			}
			if *dump != "" && strings.Contains(o.Name, *dump) {
				os.WriteFile("/tmp/govc-dump.smt2", []byte(o.Query), 0o644)
				fmt.Println("dumped", o.Name, "to /tmp/govc-dump.smt2")
			}
		}
	}
	fmt.Printf("%d/%d obligations discharged, %d functions, %.1fs\n", ok, total, len(res), time.Since(t0).Seconds())
}

func firstLines(s string, n int) string {
	l := strings.Split(s, "\n")
	if len(l) > n {
		l = l[:n]
	}
	return strings.Join(l, "\n")
}

func loadFindings() ([]*Finding, error) {
	b, err := os.ReadFile(verifDir + "/KNOWN_FINDINGS.txt")
	if err != nil {
		return nil, nil
	}
	var out []*Finding
	for _, ln := range strings.Split(string(b), "\n") {
		ln = strings.TrimSpace(ln)
		if ln == "" || strings.HasPrefix(ln, "#") {
			continue
		}
		f := &Finding{Line: ln}
		switch {
		case strings.HasPrefix(ln, "finding:"):
			f.Kind = "finding"
			ln = ln[8:]
		case strings.HasPrefix(ln, "fixed:"):
			f.Kind = "fixed"
			out = append(out, f)
			continue
		default:
			continue
		}
		for _, kv := range splitKV(ln) {
			switch kv[0] {
			case "property":
				f.Property = kv[1]
			case "obligation":
				f.Obligation = kv[1]
			case "region":
				f.Region = kv[1]
				e, err := parseSpecExpr(kv[1])
				if err != nil {
					return nil, fmt.Errorf("KNOWN_FINDINGS: bad region %q: %v", kv[1], err)
				}
				f.RegionExpr = e
			case "what":
				f.What = kv[1]
			}
		}
		out = append(out, f)
	}
	return out, nil
}

// splitKV parses `k=v k="v with spaces"` pairs.
func splitKV(s string) [][2]string {
	var out [][2]string
	s = strings.TrimSpace(s)
	for len(s) > 0 {
		k := strings.IndexByte(s, '=')
		if k < 0 {
			break
		}
		key := strings.TrimSpace(s[:k])
		s = s[k+1:]
		var val string
		if strings.HasPrefix(s, "\"") {
			e := strings.IndexByte(s[1:], '"')
			if e < 0 {
				val, s = s[1:], ""
			} else {
				val, s = s[1:1+e], s[2+e:]
			}
		} else {
			e := strings.IndexAny(s, " \t")
			if e < 0 {
				val, s = s, ""
			} else {
				val, s = s[:e], s[e:]
			}
		}
		out = append(out, [2]string{key, val})
		s = strings.TrimSpace(s)
	}
	return out
}

func cmdSelftest(args []string) int { fmt.Println("selftest: not implemented yet"); return 2 }
