//go:build verif

package stack

// Contracts for the verification harness in /verif (see /verif/DESIGN.md).
// This file is comment-only and is compiled only under the build tag "verif".
//
// C10 (stack part): the stack is the reversed slice: view(s, i) is the i-th element from the top.
//
//@ spec view(s *Stack[T], i int) T := s.list[len(s.list) - 1 - i]
//@
//@ func New
//@   ensures fresh(result) && len(result.list) == 0
//@
//@ func (*Stack).Push
//@   requires s != nil
//@   ensures  [C10] grown: len(s.list) == old(len(s.list)) + 1 && view(s, 0) == v
//@   ensures  [C10] kept: forall i int :: 0 <= i && i < old(len(s.list)) ==> view(s, i + 1) == old(view(s, i))
//@   modifies s.list, backing(s.list)
//@
//@ func (*Stack).Add
//@   requires s != nil
//@   ensures  [C10] grown: len(s.list) == old(len(s.list)) + 1 && view(s, 0) == v
//@   ensures  [C10] kept: forall i int :: 0 <= i && i < old(len(s.list)) ==> view(s, i + 1) == old(view(s, i))
//@   modifies s.list, backing(s.list)
//@
//@ func (*Stack).IsEmpty
//@   pure
//@   requires s != nil
//@   ensures result == (len(s.list) == 0)
//@
//@ func (*Stack).Len
//@   pure
//@   requires s != nil
//@   ensures result == len(s.list)
//@
//@ func (*Stack).Clear
//@   requires s != nil
//@   ensures len(s.list) == 0
//@   modifies s.list
//@
//@ func (*Stack).Top
//@   pure
//@   requires s != nil
//@   ensures [C10] result == ite(len(s.list) == 0, zero, view(s, 0))
//@
//@ func (*Stack).Peek
//@   pure
//@   requires s != nil
//@   panics when n < 0
//@   ensures [C10] inrange: n < len(s.list) ==> result.1 && result.0 == view(s, n)
//@   ensures [C10] outside: n >= len(s.list) ==> !result.1 && result.0 == zero
//@
//@ func (*Stack).Pop
//@   requires s != nil
//@   ensures  [C10] empty: old(len(s.list)) == 0 ==> !result.1 && result.0 == zero && unchanged(s.list)
//@   ensures  [C10] top: old(len(s.list)) > 0 ==> result.1 && result.0 == old(view(s, 0)) && len(s.list) == old(len(s.list)) - 1
//@   ensures  [C10] rest: old(len(s.list)) > 0 ==> forall i int :: 0 <= i && i < len(s.list) ==> view(s, i) == old(view(s, i + 1))
//@   ensures  [C10] cleared: old(len(s.list)) > 0 ==> backing(s.list, len(s.list)) == zero
//@   modifies s.list, elems(s.list)
//@
//@ func (*Stack).Each
//@   role f yield
//@   requires s != nil
//@   ensures  [C10] count: ncalls(f) >= old(ncalls(f)) && ncalls(f) - old(ncalls(f)) <= len(s.list)
//@   ensures  [C10] args: forall i int :: 0 <= i && i < ncalls(f) - old(ncalls(f)) ==> callarg(f, old(ncalls(f)) + i) == view(s, i)
//@   ensures  [C10] went: forall i int :: 0 <= i && i < ncalls(f) - old(ncalls(f)) - 1 ==> callret(f, old(ncalls(f)) + i)
//@   ensures  [C10] stopped: ncalls(f) - old(ncalls(f)) < len(s.list) ==> ncalls(f) > old(ncalls(f)) && !callret(f, ncalls(f) - 1)
//@   modifies calls(f)
//@   loop 1: invariant idx: -1 <= i && i < len(s.list) && ncalls(f) == old(ncalls(f)) + (len(s.list) - 1 - i)
//@   loop 1: invariant args: forall k int :: 0 <= k && k < len(s.list) - 1 - i ==> callarg(f, old(ncalls(f)) + k) == view(s, k) && callret(f, old(ncalls(f)) + k)
//@   loop 1: decreases i + 1
//@
//@ func (*Stack).Slice
//@   requires s != nil
//@   ensures  [C10] empty: len(s.list) == 0 ==> result == nil
//@   ensures  [C10] copy: len(s.list) > 0 ==> fresh(result) && len(result) == len(s.list) && forall i int :: 0 <= i && i < len(s.list) ==> result[i] == view(s, i)
//@   loop 1: invariant idx: 0 <= i && i <= len(s.list) && e == len(s.list) - 1 - i && len(cp) == len(s.list) && fresh(cp)
//@   loop 1: invariant filled: forall k int :: 0 <= k && k < i ==> cp[k] == view(s, k)
//@   loop 1: decreases len(s.list) - i
