//go:build verif

package queue

// Contracts for the verification harness in /verif (see /verif/DESIGN.md).
// This file is comment-only and is compiled only under the build tag "verif".
//
//@ import github.com/creachadair/mds/slice
//@
//@ spec wrap(x int, m int) int := ite(x < m, x, x - m)
//@ spec view(q *Queue[T], i int) T := q.vs[wrap(q.head + i, len(q.vs))]
//@ pred inv(q *Queue[T]) := q != nil && 0 <= q.n && q.n <= len(q.vs) && 0 <= q.head
//@+     && (q.head < len(q.vs) || (q.head == 0 && len(q.vs) == 0))
//@
//@ func New
//@   ensures fresh(result) && inv(result) && result.n == 0
//@
//@ func NewSize
//@   requires n >= 0
//@   ensures  fresh(result) && inv(result) && result.n == 0 && len(result.vs) == n
//@
//@ func (*Queue).Add
//@   requires inv(q)
//@   ensures  [C07] inv: inv(q) && q.n == old(q.n) + 1
//@   ensures  [C07] last: view(q, old(q.n)) == v
//@   ensures  [C07] kept: forall i int :: 0 <= i && i < old(q.n) ==> view(q, i) == old(view(q, i))
//@   modifies q.vs, q.head, q.n, backing(q.vs)
//@
//@ func (*Queue).Push
//@   requires inv(q)
//@   ensures  [C07] inv: inv(q) && q.n == old(q.n) + 1
//@   ensures  [C07] first: view(q, 0) == v
//@   ensures  [C07] shifted: forall i int :: 0 <= i && i < old(q.n) ==> view(q, i+1) == old(view(q, i))
//@   modifies q.vs, q.head, q.n, backing(q.vs)
//@
//@ func (*Queue).IsEmpty
//@   requires inv(q)
//@   ensures  result == (q.n == 0)
//@
//@ func (*Queue).Len
//@   requires inv(q)
//@   ensures  result == q.n
//@
//@ func (*Queue).Clear
//@   requires q != nil
//@   ensures inv(q) && q.n == 0
//@   modifies q.vs, q.head, q.n
//@
//@ func (*Queue).Front
//@   requires inv(q)
//@   ensures  [C07] result == ite(q.n == 0, zero, view(q, 0))
//@
//@ func (*Queue).Peek
//@   requires inv(q)
//@   ensures  [C07] nonneg: 0 <= n && n < q.n ==> result.1 && result.0 == view(q, n)
//@   ensures  [C07] neg: -q.n <= n && n < 0 ==> result.1 && result.0 == view(q, q.n + n)
//@   ensures  [C07] outside: (n >= q.n || n < -q.n) ==> !result.1 && result.0 == zero
//@
//@ func (*Queue).Pop
//@   requires inv(q)
//@   ensures  [C07] empty: old(q.n) == 0 ==> !result.1 && result.0 == zero && unchanged(q.vs, q.head, q.n)
//@   ensures  [C07] front: old(q.n) > 0 ==> result.1 && result.0 == old(view(q, 0)) && inv(q) && q.n == old(q.n) - 1
//@   ensures  [C07] rest: old(q.n) > 0 ==> forall i int :: 0 <= i && i < q.n ==> view(q, i) == old(view(q, i+1))
//@   modifies q.head, q.n
//@
//@ func (*Queue).PopLast
//@   requires inv(q)
//@   ensures  [C07] empty: old(q.n) == 0 ==> !result.1 && result.0 == zero && unchanged(q.vs, q.head, q.n)
//@   ensures  [C07] back: old(q.n) > 0 ==> result.1 && result.0 == old(view(q, q.n - 1)) && inv(q) && q.n == old(q.n) - 1
//@   ensures  [C07] rest: old(q.n) > 0 ==> forall i int :: 0 <= i && i < q.n ==> view(q, i) == old(view(q, i))
//@   modifies q.head, q.n
//@
//@ func (*Queue).Each
//@   role f yield
//@   requires inv(q)
//@   ensures  [C07] count: ncalls(f) >= old(ncalls(f)) && ncalls(f) - old(ncalls(f)) <= q.n
//@   ensures  [C07] args: forall i int :: 0 <= i && i < ncalls(f) - old(ncalls(f)) ==> callarg(f, old(ncalls(f)) + i) == view(q, i)
//@   ensures  [C07] went: forall i int :: 0 <= i && i < ncalls(f) - old(ncalls(f)) - 1 ==> callret(f, old(ncalls(f)) + i)
//@   ensures  [C07] stopped: ncalls(f) - old(ncalls(f)) < q.n ==> ncalls(f) > old(ncalls(f)) && !callret(f, ncalls(f) - 1)
//@   modifies calls(f)
//@   loop 1: invariant pos: q.n > 0 ==> cur == wrap(q.head + it1, len(q.vs))
//@   loop 1: invariant count: ncalls(f) == old(ncalls(f)) + it1
//@   loop 1: invariant args: forall i int :: 0 <= i && i < it1 ==> callarg(f, old(ncalls(f)) + i) == view(q, i) && callret(f, old(ncalls(f)) + i)
//@   loop 1: invariant older: forall i int :: 0 <= i && i < old(ncalls(f)) ==> callarg(f, i) == old(callarg(f, i)) && callret(f, i) == old(callret(f, i))
//@
//@ func (*Queue).Slice
//@   requires inv(q)
//@   ensures  [C07] empty: q.n == 0 ==> result == nil
//@   ensures  [C07] copy: q.n > 0 ==> fresh(result) && len(result) == q.n && forall i int :: 0 <= i && i < q.n ==> result[i] == view(q, i)
//@   loop 1: invariant pos: 0 <= i && i <= q.n && cur == wrap(q.head + i, len(q.vs)) && len(buf) == q.n && fresh(buf)
//@   loop 1: invariant filled: forall k int :: 0 <= k && k < i ==> buf[k] == view(q, k)
