//go:build verif

package omap

// Contracts for the verification harness in /verif (see /verif/DESIGN.md).
// This file is comment-only and is compiled only under the build tag "verif".
//
// C04. A Map is a handle on an stree.Tree of key/value pairs; its functions are verified against the contracts of
// stree (modular: the bodies of stree's functions are not looked at here). The abstract value is the tree's set of
// comparator classes (stree's ghost field elems). The comparator built by NewFunc looks at the Key only; that is part
// of the map invariant (keyOnly) and is established by NewFunc, whose body (a method value returning a closure) is
// outside the generator's subset and is covered by the bounded stand-in.
//
//@ import github.com/creachadair/mds/stree
//@
//@ pred keyOnly(t *stree.Tree[stree.KV[T, U]]) := forall a stree.KV[T, U], b stree.KV[T, U] :: {rank(t.compare, a), rank(t.compare, b)} a.Key == b.Key ==> rank(t.compare, a) == rank(t.compare, b)
//@ pred mapInv(m Map[T, U]) := m.m != nil ==> treeInv(m.m) && sizeInv(m.m) && keyOnly(m.m)
//@
//@ func (Map).Len
//@   requires [C04] mapInv(m)
//@   ensures  [C04] zero: m.m == nil ==> result == 0
//@   ensures  [C04] size: m.m != nil ==> result == card(m.m.elems)
//@
//@ func (Map).GetOK
//@   requires [C04] mapInv(m)
//@   ensures  [C04] zeromap: m.m == nil ==> !result.1
//@   ensures  [C04] found: m.m != nil ==> forall kv stree.KV[T, U] :: {rank(m.m.compare, kv)} kv.Key == key ==> (result.1 == (rank(m.m.compare, kv) in m.m.elems))
//@   ensures  [C04] absent: !result.1 ==> result.0 == zero
//@   ensures  [C04] value: result.1 ==> forall kv stree.KV[T, U] :: {rank(m.m.compare, kv)} kv.Key == key ==> result.0 == m.m.vals[rank(m.m.compare, kv)].Value
//@
//@ func (Map).Get
//@   requires [C04] mapInv(m)
//@   ensures  [C04] absent: (m.m == nil ==> result == zero)
//@   ensures  [C04] value: m.m != nil ==> forall kv stree.KV[T, U] :: {rank(m.m.compare, kv)} kv.Key == key ==> (rank(m.m.compare, kv) in m.m.elems ==> result == m.m.vals[rank(m.m.compare, kv)].Value) && (!(rank(m.m.compare, kv) in m.m.elems) ==> result == zero)
//@
//@ func (Map).Set
//@   requires [C04] m.m != nil && mapInv(m)
//@   ensures  [C04] inv: mapInv(m)
//@   ensures  [C04] set: forall kv stree.KV[T, U] :: {rank(m.m.compare, kv)} kv.Key == key ==> (forall k int :: {k in m.m.elems} k in m.m.elems <==> (k == rank(m.m.compare, kv) || old(k in m.m.elems)))
//@   ensures  [C04] fresh: forall kv stree.KV[T, U] :: {rank(m.m.compare, kv)} kv.Key == key ==> (result == !old(rank(m.m.compare, kv) in m.m.elems))
//@   ensures  [C04] stored: forall kv stree.KV[T, U] :: {rank(m.m.compare, kv)} kv.Key == key ==> m.m.vals[rank(m.m.compare, kv)].Key == key && m.m.vals[rank(m.m.compare, kv)].Value == value
//@   ensures  [C04] others: forall kv stree.KV[T, U] :: {rank(m.m.compare, kv)} kv.Key == key ==> (forall k int :: {m.m.vals[k]} k in m.m.elems && k != rank(m.m.compare, kv) ==> m.m.vals[k] == old(m.m.vals[k]))
//@   modifies m.m.root, m.m.size, m.m.max, m.m.elems, every(m.m.root.left), every(m.m.root.right), every(m.m.root.X), every(m.m.root.keys), every(m.m.root.desc), every(m.m.root.cnt), every(m.m.root.rep), m.m.vals
//@
//@ func (Map).Delete
//@   requires [C04] mapInv(m)
//@   ensures  [C04] inv: mapInv(m)
//@   ensures  [C04] zeromap: m.m == nil ==> !result
//@   ensures  [C04] set: m.m != nil ==> forall kv stree.KV[T, U] :: {rank(m.m.compare, kv)} kv.Key == key ==> (forall k int :: {k in m.m.elems} k in m.m.elems <==> (old(k in m.m.elems) && k != rank(m.m.compare, kv)))
//@   ensures  [C04] found: m.m != nil ==> forall kv stree.KV[T, U] :: {rank(m.m.compare, kv)} kv.Key == key ==> (result == old(rank(m.m.compare, kv) in m.m.elems))
//@   ensures  [C04] others: m.m != nil ==> forall k int :: {m.m.vals[k]} k in m.m.elems ==> m.m.vals[k] == old(m.m.vals[k])
//@   modifies m.m.root, m.m.size, m.m.max, m.m.elems, every(m.m.root.left), every(m.m.root.right), every(m.m.root.X), every(m.m.root.keys), every(m.m.root.desc), every(m.m.root.cnt), every(m.m.root.rep), m.m.vals
//@
//@ func (Map).Clear
//@   requires [C04] mapInv(m)
//@   ensures  [C04] inv: mapInv(m)
//@   ensures  [C04] empty: m.m != nil ==> forall k int :: {k in m.m.elems} !(k in m.m.elems)
//@   modifies m.m.root, m.m.size, m.m.max, m.m.elems
//@
//@ func (Map).Keys
//@   requires [C04] mapInv(m)
//@   ensures  [C04] none: m.m == nil || card(m.m.elems) == 0 ==> len(result) == 0
//@   ensures  [C04] all: m.m != nil ==> len(result) == card(m.m.elems)
//@   ghostret src imap[stree.KV[T, U]]
//@   ensures  [C04] keys: m.m != nil ==> forall i int :: {result[i]} 0 <= i && i < len(result) ==> result[i] == src[i].Key
//@   ensures  [C04] members: m.m != nil ==> forall i int :: {src[i]} 0 <= i && i < len(result) ==> rank(m.m.compare, src[i]) in m.m.elems
//@   ensures  [C04] stored: m.m != nil ==> forall i int :: {src[i]} 0 <= i && i < len(result) ==> src[i] == m.m.vals[rank(m.m.compare, src[i])]
//@   ensures  [C04] ascending: m.m != nil ==> forall a int, b int :: {src[a], src[b]} 0 <= a && a < b && b < len(result) ==> rank(m.m.compare, src[a]) < rank(m.m.compare, src[b])
//@   at loop 1 exit: ghost src = yarg1
//@   loop 1: invariant [C04] len(out) == it1 && fresh(out) && old_arrays_unchanged(out) && forall k int :: {yret1[k]} 0 <= k && k < it1 ==> yret1[k]
//@   loop 1: invariant [C04] members: forall i int :: {out[i]} 0 <= i && i < len(out) ==> out[i] == yarg1[i].Key
