//go:build verif

package stree

// Contracts for the verification harness in /verif (see /verif/DESIGN.md).
// This file is comment-only and is compiled only under the build tag "verif".
//
// C01. The abstract value of a tree is the set of *ranks* of its keys: rank(cmp, v) is the integer whose order is the
// comparison order (a total preorder embeds in the integers), so comparator-equivalent keys have one rank and the
// tree holds at most one representative per rank. Every node carries two ghost fields: keys, the ranks stored in its
// subtree, and desc, the nodes of its subtree. `local` is the search-tree condition of one node in terms of its
// children's ghost fields; `treeOK` says it holds throughout a subtree and that desc is closed under children.
//
//@ ghost field node.keys set[int]
//@ ghost field node.desc set[ref]
//@ ghost field node.cnt int
//@ ghost field Tree.elems set[int]
//@ role (*Tree).compare ord
//@
//@ spec inK(n *node[T], k int) bool := n != nil && k in n.keys
//@ spec inD(n *node[T], y ref) bool := n != nil && y in n.desc
//@ spec cntOf(n *node[T]) int := ite(n == nil, 0, n.cnt)
//@ pred local(x *node[T], cmp func(T, T) int) := x in x.desc && rank(cmp, x.X) in x.keys && x.cnt == 1 + cntOf(x.left) + cntOf(x.right) && x.cnt >= 1
//@+     && (x.left != nil ==> allocated(x.left) && x.left in x.desc) && (x.right != nil ==> allocated(x.right) && x.right in x.desc)
//@+     && (forall y ref :: {y in x.desc} y in x.desc <==> (y == x || inD(x.left, y) || inD(x.right, y)))
//@+     && (forall k int :: {k in x.keys} k in x.keys <==> (k == rank(cmp, x.X) || inK(x.left, k) || inK(x.right, k)))
//@+     && (forall k int :: {k in x.left.keys} inK(x.left, k) ==> k < rank(cmp, x.X))
//@+     && (forall k int :: {k in x.right.keys} inK(x.right, k) ==> k > rank(cmp, x.X))
//@+     && !inD(x.left, x) && !inD(x.right, x)
//@+     && (forall y ref :: {y in x.left.desc} {y in x.right.desc} !(inD(x.left, y) && inD(x.right, y)))
//@ pred closed(y *node[T]) := (forall z *node[T] :: {z in y.desc} z in y.desc ==> (forall w ref :: {w in z.desc} w in z.desc ==> w in y.desc) && (forall k int :: {k in z.keys} k in z.keys ==> k in y.keys))
//@ pred treeOK(n *node[T], cmp func(T, T) int) := n != nil ==> allocated(n) && n in n.desc
//@+     && (forall y *node[T] :: {y in n.desc} y in n.desc ==> y != nil && allocated(y) && local(y, cmp) && closed(y))
//@ pred treeInv(t *Tree[T]) := t != nil && treeOK(t.root, t.compare)
//@+     && (forall k int :: {k in t.elems} k in t.elems <==> inK(t.root, k))
//@ pred sizeInv(t *Tree[T]) := t.size == card(t.elems) && t.size <= t.max && t.size == cntOf(t.root)
//@
//@ func (*Tree).Len
//@   pure
//@   requires t != nil
//@   ensures  result == t.size
//@
//@ func (*Tree).IsEmpty
//@   pure
//@   requires t != nil
//@   ensures  result == (t.size == 0)
//@
//@ func (*Tree).Get
//@   requires [C01,C04] treeInv(t)
//@   ensures  [C01,C04] found: result.1 == (rank(t.compare, key) in t.elems)
//@   ensures  [C01,C04] value: result.1 ==> rank(t.compare, result.0) == rank(t.compare, key)
//@   ensures  [C01,C04] absent: !result.1 ==> result.0 == zero
//@   loop 1: invariant [C01] sub: cur != nil ==> t.root != nil && cur in t.root.desc
//@   loop 1: invariant [C01] narrowed: (rank(t.compare, key) in t.elems) <==> inK(cur, rank(t.compare, key))
//@
//@ func (*Tree).Min
//@   requires [C01,C04] treeInv(t)
//@   ensures  [C01,C04] empty: t.root == nil ==> result == zero
//@   ensures  [C01,C04] member: t.root != nil ==> rank(t.compare, result) in t.elems
//@   ensures  [C01,C04] least: forall k int :: {k in t.elems} k in t.elems ==> rank(t.compare, result) <= k
//@   loop 1: invariant [C01] sub: cur != nil && t.root != nil && cur in t.root.desc
//@   loop 1: invariant [C01] bound: forall k int :: {k in t.elems} k in t.elems ==> k in cur.keys || k > rank(t.compare, cur.X)
//@
//@ func (*Tree).Max
//@   requires [C01,C04] treeInv(t)
//@   ensures  [C01,C04] empty: t.root == nil ==> result == zero
//@   ensures  [C01,C04] member: t.root != nil ==> rank(t.compare, result) in t.elems
//@   ensures  [C01,C04] greatest: forall k int :: {k in t.elems} k in t.elems ==> rank(t.compare, result) >= k
//@   loop 1: invariant [C01] sub: cur != nil && t.root != nil && cur in t.root.desc
//@   loop 1: invariant [C01] bound: forall k int :: {k in t.elems} k in t.elems ==> k in cur.keys || k < rank(t.compare, cur.X)
//@
//@ func (*Tree).Clear
//@   requires t != nil
//@   ensures  [C01,C04] t.root == nil && t.size == 0 && t.max == 0 && treeInv(t) && sizeInv(t) && forall k int :: {k in t.elems} !(k in t.elems)
//@   modifies t.size, t.max, t.root, t.elems
//@   at exit: ghost t.elems = emptyset(t.elems)
//@
//@ func (*Tree).incSize
//@   requires t != nil
//@   ensures  t.size == old(t.size) + ite(inserted, 1, 0) && t.max == ite(inserted, max(old(t.max), t.size), old(t.max))
//@   modifies t.size, t.max
//@
//@ role (*Tree).limit pure
//@
//@ func (*node).size
//@   ghost cmp func(T, T) int
//@   requires treeOK(n, cmp)
//@   ensures result == cntOf(n)
//@   call size#1: cmp = cmp
//@   call size#2: cmp = cmp
//@
//@ spec sameNode(y *node[T]) bool := y.left == old(y.left) && y.right == old(y.right) && y.X == old(y.X) && y.keys == old(y.keys) && y.desc == old(y.desc) && y.cnt == old(y.cnt)
//@
// rewrite (treeToVine + vineToTree) rebuilds a subtree in place: same nodes, same keys, again a search tree. Its
// contract is assumed here and checked by a bounded stand-in (the rotations need an in-order sequence argument).
//@ func rewrite
//@   ghost cmp func(T, T) int
//@   requires treeOK(root, cmp)
//@   requires count: size == cntOf(root)
//@   ensures [assumed] shape: (root == nil <==> result == nil) && treeOK(result, cmp) && cntOf(result) == old(cntOf(root))
//@   ensures [assumed] keys: forall k int :: {inK(result, k)} inK(result, k) <==> old(inK(root, k))
//@   ensures [assumed] desc: forall y ref :: {inD(result, y)} inD(result, y) <==> old(inD(root, y))
//@   ensures [assumed] frame: forall y *node[T] :: {y.left} {y.right} {y.X} {y.keys} {y.desc} old(allocated(y)) && !old(inD(root, y)) ==> sameNode(y)
//@   modifies every(root.left), every(root.right), every(root.keys), every(root.desc), every(root.cnt)
//@
//@ func (*Tree).insert
//@   ghostret nw *node[T]
//@   requires t != nil && treeOK(root, t.compare)
//@   ensures  [C01] shape: result.0 != nil && treeOK(result.0, t.compare)
//@   ensures  [C01] keys: forall k int :: {k in result.0.keys} k in result.0.keys <==> (k == rank(t.compare, key) || old(inK(root, k)))
//@   ensures  [C01] added: result.1 == !old(inK(root, rank(t.compare, key)))
//@   ensures  [C01] desc: forall y ref :: {y in result.0.desc} y in result.0.desc <==> (old(inD(root, y)) || (nw != nil && y == nw))
//@   ensures  [C01] new: (result.1 <==> nw != nil) && (nw != nil ==> fresh(nw))
//@   ensures  [C01] count: cntOf(result.0) == old(cntOf(root)) + ite(result.1, 1, 0) && (result.2 > 0 ==> result.2 == cntOf(result.0))
//@   ensures  [C01] frame: forall y *node[T] :: {y.left} {y.right} {y.X} {y.keys} {y.desc} old(allocated(y)) && !old(inD(root, y)) ==> sameNode(y)
//@   modifies every(root.left), every(root.right), every(root.X), every(root.keys), every(root.desc), every(root.cnt)
//@   at entry: ghost nw = nil
//@   at return 1: ghost nw = result.0
//@   at return 1: ghost result.0.keys = setadd(emptyset(result.0.keys), rank(t.compare, key))
//@   at return 1: ghost result.0.desc = setadd(emptyset(result.0.desc), result.0)
//@   at return 1: ghost result.0.cnt = 1
//@   at after "root.left = ins": ghost nw = insert_nw
//@   at after "root.left = ins": assert [C01] !(root in ins.desc) && !old(inD(root.left, root))
//@   at after "root.left = ins": assert [C01] forall y *node[T] :: {y in ins.desc} y in ins.desc ==> y != root && y.left != root && y.right != root
//@   at after "root.left = ins": assert [C01] forall y *node[T] :: {y in root.right.desc} inD(root.right, y) ==> sameNode(y) && !(y in ins.desc) && y != root && y.left != root && y.right != root
//@   at after "root.left = ins": ghost root.keys = setadd(root.keys, rank(t.compare, key))
//@   at after "root.left = ins": ghost root.desc = ite(nw != nil, setadd(root.desc, nw), root.desc)
//@   at after "root.left = ins": ghost root.cnt = root.cnt + ite(nw != nil, 1, 0)
//@   at after "root.right = ins": ghost nw = insert_nw
//@   at after "root.right = ins": assert [C01] !(root in ins.desc) && !old(inD(root.right, root))
//@   at after "root.right = ins": assert [C01] forall y *node[T] :: {y in ins.desc} y in ins.desc ==> y != root && y.left != root && y.right != root
//@   at after "root.right = ins": assert [C01] forall y *node[T] :: {y in root.left.desc} inD(root.left, y) ==> sameNode(y) && !(y in ins.desc) && y != root && y.left != root && y.right != root
//@   at after "root.right = ins": ghost root.keys = setadd(root.keys, rank(t.compare, key))
//@   at after "root.right = ins": ghost root.desc = ite(nw != nil, setadd(root.desc, nw), root.desc)
//@   at after "root.right = ins": ghost root.cnt = root.cnt + ite(nw != nil, 1, 0)
//@   at after "root.left = ins": assert [C01] (forall w ref :: {w in ins.desc} w in ins.desc ==> w in root.desc) && (forall k int :: {k in ins.keys} k in ins.keys ==> k in root.keys)
//@   at after "root.left = ins": assert [C01] (forall w ref :: {w in root.right.desc} inD(root.right, w) ==> w in root.desc) && (forall k int :: {k in root.right.keys} inK(root.right, k) ==> k in root.keys)
//@   at after "root.left = ins": assert [C01] forall z *node[T] :: {z in ins.desc} z in ins.desc ==> local(z, t.compare) && closed(z)
//@   at after "root.left = ins": assert [C01] forall z *node[T] :: {z in root.right.desc} inD(root.right, z) ==> local(z, t.compare) && closed(z)
//@   at after "root.left = ins": assert [C01] local(root, t.compare)
//@   at after "root.left = ins": assert [C01] closed(root)
//@   at after "root.left = ins": assert [C01] treeOK(root, t.compare)
//@   at after "root.left = ins": assert [C01] forall k int :: {k in root.keys} k in root.keys <==> (k == rank(t.compare, key) || old(inK(root, k)))
//@   at after "root.left = ins": assert [C01] forall y ref :: {y in root.desc} y in root.desc <==> (old(inD(root, y)) || (nw != nil && y == nw))
//@   at after "root.left = ins": assert [C01] forall y *node[T] :: {y.left} {y.right} {y.X} {y.keys} {y.desc} old(allocated(y)) && !old(inD(root, y)) ==> sameNode(y)
//@   at after "root.right = ins": assert [C01] (forall w ref :: {w in ins.desc} w in ins.desc ==> w in root.desc) && (forall k int :: {k in ins.keys} k in ins.keys ==> k in root.keys)
//@   at after "root.right = ins": assert [C01] (forall w ref :: {w in root.left.desc} inD(root.left, w) ==> w in root.desc) && (forall k int :: {k in root.left.keys} inK(root.left, k) ==> k in root.keys)
//@   at after "root.right = ins": assert [C01] forall z *node[T] :: {z in ins.desc} z in ins.desc ==> local(z, t.compare) && closed(z)
//@   at after "root.right = ins": assert [C01] forall z *node[T] :: {z in root.left.desc} inD(root.left, z) ==> local(z, t.compare) && closed(z)
//@   at after "root.right = ins": assert [C01] local(root, t.compare)
//@   at after "root.right = ins": assert [C01] closed(root)
//@   at after "root.right = ins": assert [C01] treeOK(root, t.compare)
//@   at after "root.right = ins": assert [C01] forall k int :: {k in root.keys} k in root.keys <==> (k == rank(t.compare, key) || old(inK(root, k)))
//@   at after "root.right = ins": assert [C01] forall y ref :: {y in root.desc} y in root.desc <==> (old(inD(root, y)) || (nw != nil && y == nw))
//@   at after "root.right = ins": assert [C01] forall y *node[T] :: {y.left} {y.right} {y.X} {y.keys} {y.desc} old(allocated(y)) && !old(inD(root, y)) ==> sameNode(y)
//@   call rewrite#1: cmp = t.compare
//@   call size#1: cmp = t.compare
//@
//@ func (*Tree).Add
//@   requires [C01,C04] treeInv(t) && sizeInv(t)
//@   ensures  [C01,C04] inv: treeInv(t) && sizeInv(t)
//@   ensures  [C01,C04] set: forall k int :: {k in t.elems} k in t.elems <==> (k == rank(t.compare, key) || old(k in t.elems))
//@   ensures  [C01,C04] result: result == !old(rank(t.compare, key) in t.elems)
//@   modifies t.root, t.size, t.max, t.elems, every(t.root.left), every(t.root.right), every(t.root.X), every(t.root.keys), every(t.root.desc), every(t.root.cnt)
//@   at exit: ghost t.elems = setadd(t.elems, rank(t.compare, key))
//@
//@ func (*Tree).Replace
//@   requires [C01,C04] treeInv(t) && sizeInv(t)
//@   ensures  [C01,C04] inv: treeInv(t) && sizeInv(t)
//@   ensures  [C01,C04] set: forall k int :: {k in t.elems} k in t.elems <==> (k == rank(t.compare, key) || old(k in t.elems))
//@   ensures  [C01,C04] result: result == !old(rank(t.compare, key) in t.elems)
//@   modifies t.root, t.size, t.max, t.elems, every(t.root.left), every(t.root.right), every(t.root.X), every(t.root.keys), every(t.root.desc), every(t.root.cnt)
//@   at exit: ghost t.elems = setadd(t.elems, rank(t.compare, key))
//@
// popMinRight detaches the leftmost node of root.right and returns it; the ghost fields of the nodes on the way down
// all lose that node and its key. Assumed here, checked by the bounded stand-in (the spine needs a bulk ghost update).
//@ func popMinRight
//@   ghost cmp func(T, T) int
//@   requires root != nil && root.right != nil && treeOK(root, cmp)
//@   ensures [assumed] goat: result != nil && old(result in root.right.desc) && result != root && result.left == nil && result.right == nil && result.X == old(result.X)
//@   ensures [assumed] least: old(rank(cmp, result.X) in root.right.keys) && forall k int :: {old(k in root.right.keys)} old(k in root.right.keys) ==> rank(cmp, result.X) <= k
//@   ensures [assumed] rest: treeOK(root.right, cmp) && (forall k int :: {inK(root.right, k)} inK(root.right, k) <==> old(k in root.right.keys) && k != rank(cmp, result.X))
//@+      && (forall y ref :: {inD(root.right, y)} inD(root.right, y) <==> old(y in root.right.desc) && y != result)
//@   ensures [assumed] top: root.left == old(root.left) && root.X == old(root.X) && root.keys == old(root.keys) && root.desc == old(root.desc) && root.cnt == old(root.cnt) && cntOf(root.right) == old(cntOf(root.right)) - 1
//@   ensures [assumed] frame: forall y *node[T] :: {y.left} {y.right} {y.X} {y.keys} {y.desc} old(allocated(y)) && !old(y in root.right.desc) && y != root ==> sameNode(y)
//@   modifies every(root.left), every(root.right), every(root.keys), every(root.desc), every(root.cnt)
//@
//@ func (*node).remove
//@   role compare ord
//@   ghostret gone *node[T]
//@   requires treeOK(n, compare)
//@   ensures  [C01] shape: treeOK(result.0, compare)
//@   ensures  [C01] keys: forall k int :: {inK(result.0, k)} inK(result.0, k) <==> old(inK(n, k)) && k != rank(compare, key)
//@   ensures  [C01] found: result.1 == old(inK(n, rank(compare, key)))
//@   ensures  [C01] desc: forall y ref :: {inD(result.0, y)} inD(result.0, y) <==> old(inD(n, y)) && y != gone
//@   ensures  [C01] count: cntOf(result.0) == old(cntOf(n)) - ite(result.1, 1, 0)
//@   ensures  [C01] gone: (result.1 <==> gone != nil) && (gone != nil ==> n != nil && gone in old(n.desc))
//@   ensures  [C01] frame: forall y *node[T] :: {y.left} {y.right} {y.X} {y.keys} {y.desc} old(allocated(y)) && !old(inD(n, y)) ==> sameNode(y)
//@   modifies every(n.left), every(n.right), every(n.X), every(n.keys), every(n.desc), every(n.cnt)
//@   at entry: ghost gone = nil
//@   at after "n.left, ok = n.left.remove(key, compare)": ghost gone = remove_gone
//@   at after "n.left, ok = n.left.remove(key, compare)": assert [C01] !(inD(n.left, n)) && !old(inD(n.left, n))
//@   at after "n.left, ok = n.left.remove(key, compare)": assert [C01] forall y *node[T] :: {y in n.left.desc} inD(n.left, y) ==> y != n && y.left != n && y.right != n
//@   at after "n.left, ok = n.left.remove(key, compare)": assert [C01] forall y *node[T] :: {y in n.right.desc} inD(n.right, y) ==> sameNode(y) && !inD(n.left, y) && y != n && y.left != n && y.right != n && y != gone
//@   at after "n.left, ok = n.left.remove(key, compare)": ghost n.keys = setdel(n.keys, rank(compare, key))
//@   at after "n.left, ok = n.left.remove(key, compare)": ghost n.desc = ite(gone != nil, setdel(n.desc, gone), n.desc)
//@   at after "n.left, ok = n.left.remove(key, compare)": ghost n.cnt = n.cnt - ite(gone != nil, 1, 0)
//@   at after "n.left, ok = n.left.remove(key, compare)": assert [C01] treeOK(n, compare)
//@   at after "n.left, ok = n.left.remove(key, compare)": assert [C01] forall k int :: {k in n.keys} k in n.keys <==> old(inK(n, k)) && k != rank(compare, key)
//@   at after "n.left, ok = n.left.remove(key, compare)": assert [C01] forall y ref :: {y in n.desc} y in n.desc <==> old(inD(n, y)) && y != gone
//@   at after "n.right, ok = n.right.remove(key, compare)": ghost gone = remove_gone
//@   at after "n.right, ok = n.right.remove(key, compare)": assert [C01] !(inD(n.right, n)) && !old(inD(n.right, n))
//@   at after "n.right, ok = n.right.remove(key, compare)": assert [C01] forall y *node[T] :: {y in n.right.desc} inD(n.right, y) ==> y != n && y.left != n && y.right != n
//@   at after "n.right, ok = n.right.remove(key, compare)": assert [C01] forall y *node[T] :: {y in n.left.desc} inD(n.left, y) ==> sameNode(y) && !inD(n.right, y) && y != n && y.left != n && y.right != n && y != gone
//@   at after "n.right, ok = n.right.remove(key, compare)": ghost n.keys = setdel(n.keys, rank(compare, key))
//@   at after "n.right, ok = n.right.remove(key, compare)": ghost n.desc = ite(gone != nil, setdel(n.desc, gone), n.desc)
//@   at after "n.right, ok = n.right.remove(key, compare)": ghost n.cnt = n.cnt - ite(gone != nil, 1, 0)
//@   at after "n.right, ok = n.right.remove(key, compare)": assert [C01] treeOK(n, compare)
//@   at after "n.right, ok = n.right.remove(key, compare)": assert [C01] forall k int :: {k in n.keys} k in n.keys <==> old(inK(n, k)) && k != rank(compare, key)
//@   at after "n.right, ok = n.right.remove(key, compare)": assert [C01] forall y ref :: {y in n.desc} y in n.desc <==> old(inD(n, y)) && y != gone
//@   at return 4: ghost gone = n
//@   at return 5: ghost gone = n
//@   at after "goat := popMinRight(n)": ghost gone = goat
//@   at after "n.X = goat.X": ghost n.keys = setdel(n.keys, rank(compare, key))
//@   at after "n.X = goat.X": ghost n.desc = setdel(n.desc, goat)
//@   at after "n.X = goat.X": ghost n.cnt = n.cnt - 1
//@   call popMinRight#1: cmp = compare
//@
//@ func (*Tree).Remove
//@   requires [C01,C04] treeInv(t) && sizeInv(t)
//@   ensures  [C01,C04] inv: treeInv(t) && sizeInv(t)
//@   ensures  [C01,C04] set: forall k int :: {k in t.elems} k in t.elems <==> old(k in t.elems) && k != rank(t.compare, key)
//@   ensures  [C01,C04] result: result == old(rank(t.compare, key) in t.elems)
//@   modifies t.root, t.size, t.max, t.elems, every(t.root.left), every(t.root.right), every(t.root.X), every(t.root.keys), every(t.root.desc), every(t.root.cnt)
//@   at exit: ghost t.elems = setdel(t.elems, rank(t.compare, key))
//@   call rewrite#1: cmp = t.compare
//@
// C03. A cursor is a path from the root of a tree down to its current node. pathOK: the first element is the root of
// a well-formed (sub)tree, every further element is the left or right child of its predecessor, and (so that the
// order of keys along the path is available without induction) every element lies in the subtree of every earlier one.
//@ pred pathOK(c *Cursor[T], cmp func(T, T) int) := len(c.path) > 0 ==> treeOK(c.path[0], cmp)
//@+     && (forall k int :: {c.path[k]} 0 <= k && k < len(c.path) ==> c.path[k] != nil && allocated(c.path[k]))
//@+     && (forall k int :: {c.path[k]} 0 <= k && k + 1 < len(c.path) ==> c.path[k + 1] == c.path[k].left || c.path[k + 1] == c.path[k].right)
//@+     && (forall k int :: {c.path[k]} 0 <= k && k < len(c.path) ==> c.path[k] in c.path[0].desc)
//@+     && (forall j int, k int :: {c.path[j], c.path[k]} 0 <= j && j <= k && k < len(c.path) ==> c.path[k] in c.path[j].desc)
//@ spec cur(c *Cursor[T]) *node[T] := c.path[len(c.path) - 1]
//@
//@ func (*Cursor).Valid
//@   pure
//@   ensures result == (c != nil && len(c.path) != 0)
//@
//@ func (*Cursor).Key
//@   ensures [C03] valid: c != nil && len(c.path) != 0 ==> result == cur(c).X
//@   ensures [C03] invalid: c == nil || len(c.path) == 0 ==> result == zero
//@   requires [C03] c != nil ==> forall k int :: {c.path[k]} 0 <= k && k < len(c.path) ==> c.path[k] != nil
//@
//@ func (*Cursor).HasLeft
//@   requires [C03] c != nil ==> forall k int :: {c.path[k]} 0 <= k && k < len(c.path) ==> c.path[k] != nil
//@   ensures  [C03] result == (c != nil && len(c.path) != 0 && cur(c).left != nil)
//@
//@ func (*Cursor).HasRight
//@   requires [C03] c != nil ==> forall k int :: {c.path[k]} 0 <= k && k < len(c.path) ==> c.path[k] != nil
//@   ensures  [C03] result == (c != nil && len(c.path) != 0 && cur(c).right != nil)
//@
//@ func (*Cursor).HasParent
//@   ensures  [C03] result == (c != nil && len(c.path) > 1)
//@
//@ func (*Cursor).Left
//@   ghost cmp func(T, T) int
//@   requires [C03] c != nil ==> pathOK(c, cmp)
//@   ensures  [C03] same: result == c && (c != nil ==> pathOK(c, cmp))
//@   ensures  [C03] moved: c != nil && old(len(c.path)) != 0 && old(cur(c).left) != nil ==> len(c.path) == old(len(c.path)) + 1 && cur(c) == old(cur(c).left) && rank(cmp, cur(c).X) < old(rank(cmp, cur(c).X))
//@   ensures  [C03] off: c != nil && old(len(c.path)) != 0 && old(cur(c).left) == nil ==> len(c.path) == 0
//@   ensures  [C03] prefix: c != nil ==> forall k int :: {c.path[k]} 0 <= k && k < old(len(c.path)) && k < len(c.path) ==> c.path[k] == old(c.path[k])
//@   modifies c.path, backing(c.path)
//@   at before "c.path = append(c.path, left)": assert [C03] local(cur(c), cmp) && closed(cur(c)) && left in cur(c).desc
//@   at before "c.path = append(c.path, left)": assert [C03] forall j int :: {c.path[j]} 0 <= j && j < len(c.path) ==> closed(c.path[j]) && left in c.path[j].desc
