//go:build verif

package shell

// Contracts for the verification harness in /verif (see /verif/DESIGN.md).
// Compiled only under the build tag "verif". The two functions at the end are lemma functions: ordinary Go that
// exists only to state a property of the package's tables as a postcondition.
//
// C16: the reference tokenizer is the POSIX word-quoting rule (XCU 2.2.1-2.2.3) in rule form over a quoting mode
// (0 between words, 1 in a word, 2 inside single quotes, 3 inside double quotes), an escape flag and the class of
// the next byte; `$` and backquote are ordinary bytes (the package documents that it performs no expansion).
//
//@ spec pmode(st state) int := ite(st == stBreak || st == stBreakQ, 0, ite(st == stWord || st == stWordQ, 1, ite(st == stSingle, 2, 3)))
//@ spec pesc(st state) bool := st == stBreakQ || st == stWordQ || st == stDoubleQ
//@ spec enc(m int, e bool) state := ite(m == 0, ite(e, stBreakQ, stBreak), ite(m == 1, ite(e, stWordQ, stWord), ite(m == 2, stSingle, ite(e, stDoubleQ, stDouble))))
//@ spec pclass(b byte) class := ite(b == ' ' || b == '\t', clBreak, ite(b == '\n', clNewline, ite(b == '\\', clQuote, ite(b == '\'', clSingle, ite(b == '"', clDouble, clOther)))))
//@ spec blankOrNl(cl class) bool := cl == clBreak || cl == clNewline
//@ spec newMode(m int, e bool, cl class) int := ite(e, ite(m == 3, 3, ite(cl == clNewline, m, 1)),
//@+     ite(m == 0, ite(blankOrNl(cl) || cl == clQuote, 0, ite(cl == clSingle, 2, ite(cl == clDouble, 3, 1))),
//@+     ite(m == 1, ite(blankOrNl(cl), 0, ite(cl == clSingle, 2, ite(cl == clDouble, 3, 1))),
//@+     ite(m == 2, ite(cl == clSingle, 1, 2), ite(cl == clDouble, 1, 3)))))
//@ spec newEsc(m int, e bool, cl class) bool := !e && cl == clQuote && m != 2
//@ spec act(m int, e bool, cl class) action := ite(e, ite(cl == clNewline, drop, ite(m == 3, ite(cl == clQuote || cl == clDouble, push, xpush), push)),
//@+     ite(m == 0, ite(cl == clOther, push, drop),
//@+     ite(m == 1, ite(blankOrNl(cl), emit, ite(cl == clOther, push, drop)),
//@+     ite(m == 2, ite(cl == clSingle, drop, push), ite(cl == clQuote || cl == clDouble, drop, push)))))
//@ spec validState(st state) bool := stBreak <= st && st <= stDoubleQ
//@
//@ func govcStep
//@   pure
//@   requires validState(st) && clOther <= cl && cl <= clDouble
//@   ensures [C16] state: result.0 == enc(newMode(pmode(st), pesc(st), cl), newEsc(pmode(st), pesc(st), cl))
//@   ensures [C16] action: result.1 == act(pmode(st), pesc(st), cl)
//@   ensures [C16] valid: validState(result.0)
//@
//@ func govcClass
//@   pure
//@   ensures [C16] result == pclass(b)

// govcStep is the transition the scanner takes for a byte of class cl in state st.
func govcStep(st state, cl class) (state, action) {
	next := update[st][cl]
	return next.state, next.action
}

// govcClass is the class the scanner assigns to a byte.
func govcClass(b byte) class { return classOf[b] }
