//go:build verif

package shell

import "strings"

// Contracts for the verification harness in /verif (see /verif/DESIGN.md).
// Compiled only under the build tag "verif". The two functions at the end are lemma functions: ordinary Go that
// exists only to state a property of the package's tables as a postcondition.
//
// C16: the reference tokenizer is the POSIX word-quoting rule (XCU 2.2.1-2.2.3) in rule form over a quoting mode
// (0 between words, 1 in a word, 2 inside single quotes, 3 inside double quotes), an escape flag and the class of
// the next byte; `$` and backquote are ordinary bytes (the package documents that it performs no expansion).
//
//@ spec pmode(st state) int := ite(st == stBreak || st == stBreakQ, 0, ite(st == stWord || st == stWordQ, 1, ite(st == stSingle, 2, 3)))
//@ spec pesc(st state) bool := st == stBreakQ || st == stWordQ || st == stDoubleQ
//@ spec enc(m int, e bool) state := ite(m == 0, ite(e, stBreakQ, stBreak), ite(m == 1, ite(e, stWordQ, stWord), ite(m == 2, stSingle, ite(e, stDoubleQ, stDouble))))
//@ spec pclass(b byte) class := ite(b == ' ' || b == '\t', clBreak, ite(b == '\n', clNewline, ite(b == '\\', clQuote, ite(b == '\'', clSingle, ite(b == '"', clDouble, clOther)))))
//@ spec blankOrNl(cl class) bool := cl == clBreak || cl == clNewline
//@ spec newMode(m int, e bool, cl class) int := ite(e, ite(m == 3, 3, ite(cl == clNewline, m, 1)),
//@+     ite(m == 0, ite(blankOrNl(cl) || cl == clQuote, 0, ite(cl == clSingle, 2, ite(cl == clDouble, 3, 1))),
//@+     ite(m == 1, ite(blankOrNl(cl), 0, ite(cl == clSingle, 2, ite(cl == clDouble, 3, 1))),
//@+     ite(m == 2, ite(cl == clSingle, 1, 2), ite(cl == clDouble, 1, 3)))))
//@ spec newEsc(m int, e bool, cl class) bool := !e && cl == clQuote && m != 2
//@ spec act(m int, e bool, cl class) action := ite(e, ite(cl == clNewline, drop, ite(m == 3, ite(cl == clQuote || cl == clDouble, push, xpush), push)),
//@+     ite(m == 0, ite(cl == clOther, push, drop),
//@+     ite(m == 1, ite(blankOrNl(cl), emit, ite(cl == clOther, push, drop)),
//@+     ite(m == 2, ite(cl == clSingle, drop, push), ite(cl == clQuote || cl == clDouble, drop, push)))))
//@ spec validState(st state) bool := stBreak <= st && st <= stDoubleQ
//@
//@ import bytes
//@ import bufio
//@ import io
//@ import strings
//@ import sync
//@
//@ pred scanWF(s *Scanner) := s != nil && s.buf != nil && 0 <= s.buf.pos && s.buf.pos <= len(s.buf.input) && s.cur.n >= 0
//@+     && (s.st == stNone || validState(s.st)) && (s.err == nil ==> validState(s.st))
//@
//@ func NewScanner
//@   ensures [C16] result != nil && fresh(result) && result.st == stBreak && result.err == nil && result.buf != nil && result.buf.pos == 0 && result.buf.input == rdstr[r]
//@
//@ func (*Scanner).Reset
//@   requires s != nil && s.buf != nil
//@   ensures [C16] scanWF(s) && s.st == stBreak && s.err == nil && s.cur.n == 0 && s.buf == old(s.buf) && s.buf.pos == 0 && s.buf.input == rdstr[r]
//@   modifies s.st, s.err, s.buf.pos, s.buf.input, s.cur.n
//@
//@ func (*Scanner).Next
//@   requires scanWF(s)
//@   ghostret gn int, gtok imap[byte], gst state, ga action
//@   ensures [C16] wf: scanWF(s) && s.buf == old(s.buf) && s.buf.input == old(s.buf.input) && s.buf.pos >= old(s.buf.pos)
//@   ensures [C16] stopped: old(s.err) != nil ==> !result && s.st == old(s.st) && s.err == old(s.err) && s.buf.pos == old(s.buf.pos) && s.cur.n == old(s.cur.n)
//@   ensures [C16] refines: old(s.err) == nil ==> s.st == gst && s.cur.n == gn && forall k int :: {s.cur.data[k]} 0 <= k && k < gn ==> s.cur.data[k] == gtok[k]
//@   ensures [C16] emitted: old(s.err) == nil && s.err == nil ==> result && ga == emit && s.st == stBreak
//@   ensures [C16] eof: old(s.err) == nil && s.err != nil ==> s.buf.pos == len(s.buf.input) && (s.buf.broken <==> s.err != io.EOF) && (s.err == io.EOF ==> result == (s.st != stBreak)) && (s.err != io.EOF ==> !result)
//@   modifies s.st, s.err, s.buf.pos, s.cur.n, s.cur.data
//@   at entry: ghost gn = 0
//@   at entry: ghost gst = s.st
//@   at after "s.st = next.state": ghost ga = act(pmode(gst), pesc(gst), pclass(c))
//@   at after "s.st = next.state": ghost gtok = ite(ga == push, upd(gtok, gn, c), ite(ga == xpush, upd(upd(gtok, gn, '\\'), gn + 1, c), gtok))
//@   at after "s.st = next.state": ghost gn = ite(ga == push, gn + 1, ite(ga == xpush, gn + 2, gn))
//@   at after "s.st = next.state": ghost gst = enc(newMode(pmode(gst), pesc(gst), pclass(c)), newEsc(pmode(gst), pesc(gst), pclass(c)))
//@   loop 1: invariant wf: s.buf == old(s.buf) && s.buf.input == old(s.buf.input) && old(s.buf.pos) <= s.buf.pos && s.buf.pos <= len(s.buf.input) && s.err == nil && old(s.err) == nil
//@   loop 1: invariant refines: validState(s.st) && s.st == gst && s.cur.n == gn && gn >= 0 && forall k int :: {s.cur.data[k]} 0 <= k && k < gn ==> s.cur.data[k] == gtok[k]
//@
//@ func (*Scanner).Text
//@   pure
//@   requires s != nil && s.cur.n >= 0
//@   ensures [C16] len(result) == s.cur.n && forall i int :: {result[i]} 0 <= i && i < s.cur.n ==> result[i] == s.cur.data[i]
//@
//@ func (*Scanner).Err
//@   pure
//@   requires s != nil
//@   ensures [C16] result == s.err
//@
//@ func (*Scanner).Complete
//@   pure
//@   requires s != nil
//@   ensures [C16] result == (s.st == stBreak || s.st == stWord)
//@
//@ func (*Scanner).Rest
//@   requires s != nil
//@   ensures [C16] s.st == stNone && s.err == io.EOF && s.cur.n == 0 && result == s.buf && s.buf == old(s.buf) && s.buf.pos == old(s.buf.pos) && s.buf.input == old(s.buf.input)
//@   modifies s.st, s.err, s.cur.n
//@
// C15: the bytes with a special meaning to a POSIX shell (XCU 2.2), written out here and not copied from the
// package's constants; govcSpecial (a lemma function below) shows that the package quotes every one of them.
//@ spec posixSpecial(b byte) bool := b == '|' || b == '&' || b == ';' || b == '<' || b == '>' || b == '(' || b == ')' || b == '$' || b == '`' || b == '\\' || b == '"' || b == '\''
//@+     || b == ' ' || b == '\t' || b == '\n' || b == '*' || b == '?' || b == '[' || b == '#' || b == '~' || b == '=' || b == '%'
//@ spec needsQuote(b byte) bool := strhas(allQuote, b)
//@
//@ func govcSpecial
//@   pure
//@   ensures [C15] covers: posixSpecial(b) && b != '\'' ==> result
//@   ensures [C15] exact: result == needsQuote(b)
//@
//@ func quotable
//@   pure
//@   ghostret wq int, wo int
//@   ensures [C15] hasQ: result.0 ==> 0 <= wq && wq < len(s) && s[wq] == '\''
//@   ensures [C15] noQ: !result.0 ==> forall k int :: {s[k]} 0 <= k && k < len(s) ==> s[k] != '\''
//@   ensures [C15] hasOther: result.1 ==> 0 <= wo && wo < len(s) && needsQuote(s[wo])
//@   ensures [C15] noOther: !result.1 ==> forall k int :: {s[k]} 0 <= k && k < len(s) ==> !needsQuote(s[k]) || s[k] == '\''
//@   at after "v |= quote": ghost wq = i
//@   at after "v |= other": ghost wo = i
//@   loop 1: invariant idx: 0 <= i && i <= len(s) && 0 <= v && v <= 3
//@   loop 1: invariant hasQ: emod(v, 2) == 1 ==> 0 <= wq && wq < i && s[wq] == '\''
//@   loop 1: invariant noQ: emod(v, 2) == 0 ==> forall k int :: {s[k]} 0 <= k && k < i ==> s[k] != '\''
//@   loop 1: invariant hasOther: v >= 2 ==> 0 <= wo && wo < i && needsQuote(s[wo])
//@   loop 1: invariant noOther: v < 2 ==> forall k int :: {s[k]} 0 <= k && k < i ==> !needsQuote(s[k]) || s[k] == '\''
//@   loop 1: decreases len(s) - i
//@
// quote: a ghost copy of the reference tokenizer (mode gm, escape flag ge, token gtok[0..gn)) reads every byte that
// quote appends, starting between words. At the end it is inside a word, not escaped, has emitted nothing, its token
// is exactly s, and no special byte was read outside quotes.
//@ func quote
//@   requires buf != nil
//@   ghostret gm int, ge bool, gn int, gtok imap[byte], bare bool, emitted bool, gcl class, gm2 int
//@   ensures [C15] word: gm == 1 && !ge && !emitted
//@   ensures [C15] token: gn == len(s) && forall k int :: {gtok[k]} 0 <= k && k < len(s) ==> gtok[k] == s[k]
//@   ensures [C15] protected: !bare
//@   ensures [C15] appended: buf.n >= old(buf.n) && forall k int :: {buf.data[k]} 0 <= k && k < old(buf.n) ==> buf.data[k] == old(buf.data[k])
//@   modifies buf.n, buf.data
//@   at entry: ghost gm = 0
//@   at entry: ghost ge = false
//@   at entry: ghost gn = 0
//@   at entry: ghost bare = false
//@   at entry: ghost emitted = false
//@   at after "buf.WriteByte('\'')": ghost gcl = pclass('\'')
//@   at after "buf.WriteByte('\'')": ghost bare = bare || (gm != 2 && !ge && posixSpecial('\'') && '\'' != '\'' && '\'' != '\\')
//@   at after "buf.WriteByte('\'')": ghost emitted = emitted || act(gm, ge, gcl) == emit
//@   at after "buf.WriteByte('\'')": ghost gtok = ite(act(gm, ge, gcl) == push, upd(gtok, gn, '\''), ite(act(gm, ge, gcl) == xpush, upd(upd(gtok, gn, '\\'), gn + 1, '\''), gtok))
//@   at after "buf.WriteByte('\'')": ghost gn = ite(act(gm, ge, gcl) == push, gn + 1, ite(act(gm, ge, gcl) == xpush, gn + 2, gn))
//@   at after "buf.WriteByte('\'')": ghost gm2 = newMode(gm, ge, gcl)
//@   at after "buf.WriteByte('\'')": ghost ge = newEsc(gm, ge, gcl)
//@   at after "buf.WriteByte('\'')": ghost gm = gm2
//@   at after "buf.WriteByte('\\')": ghost gcl = pclass('\\')
//@   at after "buf.WriteByte('\\')": ghost bare = bare || (gm != 2 && !ge && posixSpecial('\\') && '\\' != '\'' && '\\' != '\\')
//@   at after "buf.WriteByte('\\')": ghost emitted = emitted || act(gm, ge, gcl) == emit
//@   at after "buf.WriteByte('\\')": ghost gtok = ite(act(gm, ge, gcl) == push, upd(gtok, gn, '\\'), ite(act(gm, ge, gcl) == xpush, upd(upd(gtok, gn, '\\'), gn + 1, '\\'), gtok))
//@   at after "buf.WriteByte('\\')": ghost gn = ite(act(gm, ge, gcl) == push, gn + 1, ite(act(gm, ge, gcl) == xpush, gn + 2, gn))
//@   at after "buf.WriteByte('\\')": ghost gm2 = newMode(gm, ge, gcl)
//@   at after "buf.WriteByte('\\')": ghost ge = newEsc(gm, ge, gcl)
//@   at after "buf.WriteByte('\\')": ghost gm = gm2
//@   at after "buf.WriteByte(ch)": ghost gcl = pclass(ch)
//@   at after "buf.WriteByte(ch)": ghost bare = bare || (gm != 2 && !ge && posixSpecial(ch) && ch != '\'' && ch != '\\')
//@   at after "buf.WriteByte(ch)": ghost emitted = emitted || act(gm, ge, gcl) == emit
//@   at after "buf.WriteByte(ch)": ghost gtok = ite(act(gm, ge, gcl) == push, upd(gtok, gn, ch), ite(act(gm, ge, gcl) == xpush, upd(upd(gtok, gn, '\\'), gn + 1, ch), gtok))
//@   at after "buf.WriteByte(ch)": ghost gn = ite(act(gm, ge, gcl) == push, gn + 1, ite(act(gm, ge, gcl) == xpush, gn + 2, gn))
//@   at after "buf.WriteByte(ch)": ghost gm2 = newMode(gm, ge, gcl)
//@   at after "buf.WriteByte(ch)": ghost ge = newEsc(gm, ge, gcl)
//@   at after "buf.WriteByte(ch)": ghost gm = gm2
//@   at after "buf.WriteString("''")": ghost gcl = pclass('\'')
//@   at after "buf.WriteString("''")": ghost bare = bare || (gm != 2 && !ge && posixSpecial('\'') && '\'' != '\'' && '\'' != '\\')
//@   at after "buf.WriteString("''")": ghost emitted = emitted || act(gm, ge, gcl) == emit
//@   at after "buf.WriteString("''")": ghost gtok = ite(act(gm, ge, gcl) == push, upd(gtok, gn, '\''), ite(act(gm, ge, gcl) == xpush, upd(upd(gtok, gn, '\\'), gn + 1, '\''), gtok))
//@   at after "buf.WriteString("''")": ghost gn = ite(act(gm, ge, gcl) == push, gn + 1, ite(act(gm, ge, gcl) == xpush, gn + 2, gn))
//@   at after "buf.WriteString("''")": ghost gm2 = newMode(gm, ge, gcl)
//@   at after "buf.WriteString("''")": ghost ge = newEsc(gm, ge, gcl)
//@   at after "buf.WriteString("''")": ghost gm = gm2
//@   at after "buf.WriteString("''")": ghost gcl = pclass('\'')
//@   at after "buf.WriteString("''")": ghost bare = bare || (gm != 2 && !ge && posixSpecial('\'') && '\'' != '\'' && '\'' != '\\')
//@   at after "buf.WriteString("''")": ghost emitted = emitted || act(gm, ge, gcl) == emit
//@   at after "buf.WriteString("''")": ghost gtok = ite(act(gm, ge, gcl) == push, upd(gtok, gn, '\''), ite(act(gm, ge, gcl) == xpush, upd(upd(gtok, gn, '\\'), gn + 1, '\''), gtok))
//@   at after "buf.WriteString("''")": ghost gn = ite(act(gm, ge, gcl) == push, gn + 1, ite(act(gm, ge, gcl) == xpush, gn + 2, gn))
//@   at after "buf.WriteString("''")": ghost gm2 = newMode(gm, ge, gcl)
//@   at after "buf.WriteString("''")": ghost ge = newEsc(gm, ge, gcl)
//@   at after "buf.WriteString("''")": ghost gm = gm2
// fast path: s is written unchanged. Every byte of s has class `other` (proved); that a run of such bytes read
// between words is one unfinished word equal to the run is the one inductive fact about the reference tokenizer that
// is assumed here (stated as an assumption in the evidence).
//@   at after "buf.WriteString(s)": assert [C15] forall k int :: {s[k]} 0 <= k && k < len(s) ==> pclass(s[k]) == clOther && !posixSpecial(s[k])
//@   at after "buf.WriteString(s)": assume forall k int :: {gtok[k]} 0 <= k && k < len(s) ==> gtok[k] == s[k]
//@   at after "buf.WriteString(s)": ghost gn = len(s)
//@   at after "buf.WriteString(s)": ghost gm = ite(len(s) > 0, 1, gm)
//@   loop 1: invariant idx: gn == it1 && !emitted && !bare && !ge && buf.n >= old(buf.n)
//@   loop 1: invariant mode: (inq ==> gm == 2) && (!inq ==> (gm == 1 || (it1 == 0 && gm == 0)))
//@   loop 1: invariant token: forall k int :: {gtok[k]} 0 <= k && k < it1 ==> gtok[k] == s[k]
//@   loop 1: invariant kept: forall k int :: {buf.data[k]} 0 <= k && k < old(buf.n) ==> buf.data[k] == old(buf.data[k])
//@   loop 1: invariant plain: !hasOther ==> !inq && forall k int :: {s[k]} 0 <= k && k < len(s) ==> !needsQuote(s[k]) || s[k] == '\''
//@
//@ func Quote
//@   ghostret qm int, qe bool, qn int, qtok imap[byte], qbare bool
//@   ensures [C15] empty: len(s) == 0 ==> len(result) == 2 && result[0] == '\'' && result[1] == '\''
//@   ensures [C15] plain: len(s) > 0 && (forall k int :: {s[k]} 0 <= k && k < len(s) ==> !needsQuote(s[k]) && s[k] != '\'') ==> result == s
//@   ensures [C15] quoted: len(s) > 0 && !(forall k int :: {s[k]} 0 <= k && k < len(s) ==> !needsQuote(s[k]) && s[k] != '\'') ==> qm == 1 && !qe && !qbare && qn == len(s) && forall k int :: {qtok[k]} 0 <= k && k < len(s) ==> qtok[k] == s[k]
//@   at after "quote(s, buf)": ghost qm = quote_gm
//@   at after "quote(s, buf)": ghost qe = quote_ge
//@   at after "quote(s, buf)": ghost qn = quote_gn
//@   at after "quote(s, buf)": ghost qtok = quote_gtok
//@   at after "quote(s, buf)": ghost qbare = quote_bare
//@   at after "buf := bufPool.Get().(*bytes.Buffer)": assume buf != nil
//@
//@ func Join
//@   ensures [C15] empty: len(ss) == 0 ==> len(result) == 0
//@   at after "buf := bufPool.Get().(*bytes.Buffer)": assume buf != nil
//@   at after "quote(ss[0], buf)": assert [C15] quote_gm == 1 && !quote_ge && !quote_emitted && !quote_bare && quote_gn == len(ss[0])
//@   at after "buf.WriteByte(' ')": assert [C15] act(1, false, pclass(' ')) == emit && newMode(1, false, pclass(' ')) == 0 && !newEsc(1, false, pclass(' '))
//@   at after "quote(s, buf)": assert [C15] quote_gm == 1 && !quote_ge && !quote_emitted && !quote_bare && quote_gn == len(s)
//@   loop 1: invariant buf != nil && buf.n >= 0
//@
//@ func (*Scanner).Split
//@   requires scanWF(s)
//@   ensures [C16] scanWF(s) && s.err != nil && s.buf == old(s.buf)
//@   modifies s.st, s.err, s.buf.pos, s.cur.n, s.cur.data
//@   loop 1: invariant scanWF(s) && s.buf == old(s.buf) && (tokens == nil || fresh(tokens)) && old_arrays_unchanged(tokens)
//@
//@ func (*Scanner).Each
//@   role f yield
//@   requires scanWF(s)
//@   ensures [C16] scanWF(s) && s.buf == old(s.buf)
//@   modifies s.st, s.err, s.buf.pos, s.cur.n, s.cur.data, calls(f)
//@   loop 1: invariant scanWF(s) && s.buf == old(s.buf) && ncalls(f) >= old(ncalls(f)) && forall i int :: {callret(f, i)} old(ncalls(f)) <= i && i < ncalls(f) ==> callret(f, i)
//@
//@ func Split
//@   ensures [C16] true
//@   at after "sc := scanPool.Get().(*Scanner)": assume sc != nil && sc.buf != nil && fresh(sc.buf) && fresh(sc.cur)
//@   modifies rdstr
//@
//@ func govcStep
//@   pure
//@   requires validState(st) && clOther <= cl && cl <= clDouble
//@   ensures [C16] state: result.0 == enc(newMode(pmode(st), pesc(st), cl), newEsc(pmode(st), pesc(st), cl))
//@   ensures [C16] action: result.1 == act(pmode(st), pesc(st), cl)
//@   ensures [C16] valid: validState(result.0)
//@
//@ func govcClass
//@   pure
//@   ensures [C16] result == pclass(b)

// govcStep is the transition the scanner takes for a byte of class cl in state st.
func govcStep(st state, cl class) (state, action) {
	next := update[st][cl]
	return next.state, next.action
}

// govcClass is the class the scanner assigns to a byte.
func govcClass(b byte) class { return classOf[b] }

// govcSpecial reports whether the package treats b as a byte that needs quoting.
func govcSpecial(b byte) bool { return strings.IndexByte(allQuote, b) >= 0 }
