//go:build verif

package mstr

// Contracts for the verification harness in /verif (see /verif/DESIGN.md).
// This file is comment-only and is compiled only under the build tag "verif".
//
//@ import cmp
//@
//@ spec cont(b byte) bool := b & 0xc0 == 0x80
//@ spec lead(b byte) bool := b & 0xc0 == 0xc0
//@ spec digit(b byte) bool := b >= '0' && b <= '9'
// Two consequences of valid UTF-8 (stated, not proved: DESIGN.md §6 C20): a continuation byte never comes first or
// follows an ASCII byte, and there are never four continuation bytes in a row.
//@ pred noContAfterASCII(s string) := (len(s) > 0 ==> !cont(s[0])) && (forall k int :: {s[k]} 0 < k && k < len(s) && cont(s[k]) ==> s[k-1] >= 0x80)
//@ pred noLongRuns(s string) := forall k int :: {s[k]} 0 <= k && k + 3 < len(s) && cont(s[k]) && cont(s[k+1]) && cont(s[k+2]) ==> !cont(s[k+3])
//@
//@ func Trunc
//@   pure
//@   requires n >= 0
//@   ensures [C20] whole: n >= len(s) ==> result == s
//@   ensures [C20] prefix: result.base == s.base && result.off == s.off && len(result) <= len(s) && (n < len(s) ==> len(result) <= n)
//@   ensures [C20] dropped: n < len(s) ==> forall k int :: {s[k]} len(result) < k && k < n ==> cont(s[k])
//@   ensures [C20] boundary: n < len(s) && noContAfterASCII(s) ==> !cont(s[len(result)])
//@   ensures [C20] short: n < len(s) && noLongRuns(s) ==> n - len(result) <= 4
//@   loop 1: invariant idx: 0 <= n && n <= old(n) && old(n) < len(s)
//@   loop 1: invariant conts: forall k int :: {s[k]} n <= k && k < old(n) ==> cont(s[k])
//@   loop 1: decreases n
//@
//@ func isDigit
//@   pure
//@   ensures result == digit(b)
//@
//@ func parseInt
//@   pure
//@   ensures [C20] rest: result.1.base == s.base && result.1.off >= s.off && result.1.off + len(result.1) == s.off + len(s)
//@   ensures [C20] ok: result.2 == (len(s) > 0 && digit(s[0])) && (result.2 ==> len(result.1) < len(s)) && (!result.2 ==> result.1 == s)
//@   ensures [C20] digits: forall k int :: {s[k]} 0 <= k && k < len(s) - len(result.1) ==> digit(s[k])
//@   ensures [C20] stop: len(result.1) > 0 ==> !digit(result.1[0])
//@   ensures [C20] value: result.0 >= 0
//@   loop 1: invariant idx: 0 <= i && i <= len(s) && v >= 0
//@   loop 1: invariant digits: forall k int :: {s[k]} 0 <= k && k < i ==> digit(s[k])
//@   loop 1: decreases len(s) - i
//@
//@ func parseStr
//@   pure
//@   ensures [C20] split: result.0.base == s.base && result.0.off == s.off && result.1.base == s.base && result.1.off == s.off + len(result.0) && len(result.0) + len(result.1) == len(s)
//@   ensures [C20] nondigits: forall k int :: {s[k]} 0 <= k && k < len(result.0) ==> !digit(s[k])
//@   ensures [C20] stop: len(result.1) > 0 ==> digit(result.1[0])
//@   ensures [C20] progress: len(s) > 0 && !digit(s[0]) ==> len(result.1) < len(s)
//@   loop 1: invariant idx: 0 <= i && i <= len(s)
//@   loop 1: invariant nondigits: forall k int :: {s[k]} 0 <= k && k < i ==> !digit(s[k])
//@   loop 1: decreases len(s) - i
//@
//@ func CompareNatural
//@   pure
//@   ensures [C20] range: result == -1 || result == 0 || result == 1
//@   loop 1: invariant true
//@   loop 1: decreases len(a) + len(b)
