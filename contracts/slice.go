//go:build verif

package slice

// Contracts for the verification harness in /verif (see /verif/DESIGN.md).
//
//@ spec norm(x int, m int) int := ite(x < 0, x + m, ite(x >= m, x - m, x))
//@
//@ func Rotate trusted: permutation postcondition checked by a bounded stand-in only
//@   panics when k < -len(ss) || k > len(ss)
//@   ensures  [C07,C17] forall t int :: {ss[t]} 0 <= t && t < len(ss) ==> ss[t] == old(ss[norm(t - k, len(ss))])
//@   modifies elems(ss)
