//go:build verif

package mlink

// Contracts for the verification harness in /verif (see /verif/DESIGN.md).
// This file is comment-only and is compiled only under the build tag "verif".
//
// C10 (mlink part). entry, List and Cursor are handled by reference (byref): a List's sentinel `first` is the entry
// object embedded in it, a Cursor returned by value is a fresh object, assignment of such a value copies its fields.
// A list carries a ghost sequence seq[0..n] of its entries (seq[0] is the sentinel, seq[k+1] holds element k) linked
// by `link`, pairwise different, ending in nil; a cursor carries the list it belongs to and its position pos, with
// pred == seq[pos]. An entry whose link points to itself is detached; a cursor resting on one is stale and every
// method has to panic on it.
//
//@ byref entry, List, Cursor
//@ ghost field List.seq imap[*entry[T]]
//@ ghost field List.n int
//@ ghost field Cursor.list *List[T]
//@ ghost field Cursor.pos int
//@
//@ pred listOK(lst *List[T]) := lst != nil && allocated(lst) && lst.n >= 0 && lst.seq[0] == lst.first && lst.seq[lst.n].link == nil
//@+     && (forall k int :: {lst.seq[k]} 0 <= k && k <= lst.n ==> lst.seq[k] != nil && allocated(lst.seq[k]))
//@+     && (forall a int, b int :: {lst.seq[a], lst.seq[b]} 0 <= a && b == a + 1 && b <= lst.n ==> lst.seq[a].link == lst.seq[b])
//@+     && (forall j int, k int :: {lst.seq[j], lst.seq[k]} 0 <= j && j < k && k <= lst.n ==> lst.seq[j] != lst.seq[k])
//@ spec val(lst *List[T], i int) T := lst.seq[i + 1].X
//@ pred stale(c *Cursor[T]) := c.pred.link == c.pred
//@ pred cursorWF(c *Cursor[T]) := c != nil && allocated(c) && c.pred != nil && allocated(c.pred)
//@ pred cursorAt(c *Cursor[T]) := listOK(c.list) && 0 <= c.pos && c.pos <= c.list.n && c.pred == c.list.seq[c.pos] && c.pred.link != c.pred
//@
//@ func (*entry).checkValid
//@   requires e != nil
//@   panics when e.link == e
//@   ensures  result == e
//@
//@ func NewList
//@   ensures [C10] result != nil && fresh(result) && listOK(result) && result.n == 0
//@   at return 1: ghost result.seq = upd(result.seq, 0, result.first)
//@   at return 1: ghost result.n = 0
//@
//@ func (*List).IsEmpty
//@   requires [C10] listOK(lst)
//@   ensures  [C10] result == (lst.n == 0)
//@
//@ func (*List).cfirst
//@   requires [C10] listOK(lst)
//@   ensures  [C10] fresh(result) && result.pred == lst.first && result.list == lst && result.pos == 0 && cursorAt(result)
//@   at return 1: ghost result.list = lst
//@   at return 1: ghost result.pos = 0
//@
//@ func (*Cursor).AtEnd
//@   requires [C10] cursorWF(c) && (!stale(c) ==> cursorAt(c))
//@   panics when c.pred.link == c.pred
//@   ensures  [C10] result == (c.pos == c.list.n)
//@   at entry: assert [C10] !stale(c) && c.pos < c.list.n ==> c.list.seq[c.pos].link == c.list.seq[c.pos + 1] && c.list.seq[c.pos + 1] != nil
//@
//@ pred linkAt(lst *List[T], p int) := 0 <= p && p < lst.n ==> lst.seq[p].link == lst.seq[p + 1] && lst.seq[p + 1] != nil && allocated(lst.seq[p + 1]) && lst.seq[p + 1] != lst.seq[p]
//@
//@ func (*Cursor).Get
//@   requires [C10] cursorWF(c) && (!stale(c) ==> cursorAt(c))
//@   panics when c.pred.link == c.pred
//@   ensures  [C10] here: c.pos < c.list.n ==> result == val(c.list, c.pos)
//@   ensures  [C10] end: c.pos == c.list.n ==> result == zero
//@   at entry: assert [C10] !stale(c) ==> linkAt(c.list, c.pos)
//@
//@ func (*Cursor).Next
//@   requires [C10] cursorWF(c) && (!stale(c) ==> cursorAt(c))
//@   panics when c.pred.link == c.pred
//@   ensures  [C10] moved: old(c.pos) < c.list.n ==> c.pos == old(c.pos) + 1 && result == (c.pos < c.list.n)
//@   ensures  [C10] stayed: old(c.pos) == c.list.n ==> c.pos == old(c.pos) && !result
//@   ensures  [C10] inv: cursorAt(c) && c.list == old(c.list)
//@   modifies c.pred, c.pos
//@   at entry: assert [C10] !stale(c) ==> linkAt(c.list, c.pos) && linkAt(c.list, c.pos + 1)
//@   at after "c.pred = c.pred.link": ghost c.pos = c.pos + 1
//@
//@ func (*Cursor).Push
//@   requires [C10] cursorWF(c) && (!stale(c) ==> cursorAt(c))
//@   panics when c.pred.link == c.pred
//@   ensures  [C10] inv: cursorAt(c) && c.list == old(c.list) && c.pos == old(c.pos) && c.list.n == old(c.list.n) + 1
//@   ensures  [C10] here: val(c.list, c.pos) == v
//@   ensures  [C10] before: forall k int :: {c.list.seq[k]} 0 <= k && k <= c.pos ==> c.list.seq[k] == old(c.list.seq)[k]
//@   ensures  [C10] after: forall k int :: {c.list.seq[k]} c.pos + 1 < k && k <= c.list.n ==> c.list.seq[k] == old(c.list.seq)[k - 1]
//@   ensures  [C10] new: fresh(c.list.seq[c.pos + 1])
//@   ensures  [C10] others: forall x *entry[T] :: {x.link} old(allocated(x)) && x != c.pred ==> x.link == old(x.link)
//@   ensures  [C10] values: forall x *entry[T] :: {x.X} old(allocated(x)) ==> x.X == old(x.X)
//@   modifies c.pred.link, c.list.seq, c.list.n
//@   at entry: assert [C10] !stale(c) ==> linkAt(c.list, c.pos)
//@   at after "c.pred.link = added": ghost c.list.seq = lambda k int :: ite(k <= c.pos, c.list.seq[k], ite(k == c.pos + 1, added, c.list.seq[k - 1]))
//@   at after "c.pred.link = added": ghost c.list.n = c.list.n + 1
//@
//@ func (*Cursor).Set
//@   requires [C10] cursorWF(c) && (!stale(c) ==> cursorAt(c))
//@   panics when c.pred.link == c.pred
//@   ensures  [C10] inv: cursorAt(c) && c.list == old(c.list) && c.pos == old(c.pos)
//@   ensures  [C10] size: c.list.n == old(c.list.n) + ite(old(c.pos == c.list.n), 1, 0)
//@   ensures  [C10] here: val(c.list, c.pos) == v
//@   ensures  [C10] rest: forall k int :: {c.list.seq[k]} 0 <= k && k <= old(c.list.n) ==> c.list.seq[k] == old(c.list.seq)[k] && (k != c.pos + 1 ==> c.list.seq[k].X == old(c.list.seq[k].X))
//@   ensures  [C10] links: forall x *entry[T] :: {x.link} old(allocated(x)) && x != c.pred ==> x.link == old(x.link)
//@   modifies c.pred.link, c.pred.link.X, c.list.seq, c.list.n
//@   at entry: assert [C10] !stale(c) ==> linkAt(c.list, c.pos)
//@   at after "c.pred.link = &entry[T]{X: v}": ghost c.list.seq = upd(c.list.seq, c.list.n + 1, c.pred.link)
//@   at after "c.pred.link = &entry[T]{X: v}": ghost c.list.n = c.list.n + 1
//@
//@ func (*Cursor).Remove
//@   requires [C10] cursorWF(c) && (!stale(c) ==> cursorAt(c))
//@   panics when c.pred.link == c.pred
//@   ensures  [C10] inv: cursorAt(c) && c.list == old(c.list) && c.pos == old(c.pos)
//@   ensures  [C10] end: old(c.pos == c.list.n) ==> result == zero && c.list.n == old(c.list.n)
//@   ensures  [C10] removed: old(c.pos < c.list.n) ==> result == old(val(c.list, c.pos)) && c.list.n == old(c.list.n) - 1 && old(c.list.seq[c.pos + 1]).link == old(c.list.seq[c.pos + 1])
//@   ensures  [C10] before: forall k int :: {c.list.seq[k]} 0 <= k && k <= c.pos ==> c.list.seq[k] == old(c.list.seq)[k]
//@   ensures  [C10] after: forall k int :: {c.list.seq[k]} c.pos < k && k <= c.list.n ==> c.list.seq[k] == old(c.list.seq)[k + 1]
//@   ensures  [C10] values: forall x *entry[T] :: {x.X} old(allocated(x)) ==> x.X == old(x.X)
//@   ensures  [C10] links: forall x *entry[T] :: {x.link} old(allocated(x)) && x != c.pred && x != old(c.pred.link) ==> x.link == old(x.link)
//@   modifies c.pred.link, c.pred.link.link, c.list.seq, c.list.n
//@   at entry: assert [C10] !stale(c) ==> linkAt(c.list, c.pos) && linkAt(c.list, c.pos + 1)
//@   at after "c.pred.link = next": ghost c.list.seq = lambda k int :: ite(k <= c.pos, c.list.seq[k], c.list.seq[k + 1])
//@   at after "c.pred.link = next": ghost c.list.n = c.list.n - 1
//@
// invalidate walks a nil-terminated chain s[0..m) starting at e and makes every entry of it point to itself.
//@ pred chain(e *entry[T], s imap[*entry[T]], m int) := m >= 0 && (m == 0 <==> e == nil) && (m > 0 ==> s[0] == e && s[m - 1].link == nil)
//@+     && (forall k int :: {s[k]} 0 <= k && k < m ==> s[k] != nil && allocated(s[k]))
//@+     && (forall a int, b int :: {s[a], s[b]} 0 <= a && b == a + 1 && b < m ==> s[a].link == s[b])
//@+     && (forall j int, k int :: {s[j], s[k]} 0 <= j && j < k && k < m ==> s[j] != s[k])
//@
//@ func (*entry).invalidate
//@   ghost s imap[*entry[T]], m int
//@   requires [C10] chain(e, s, m)
//@   ensures  [C10] detached: forall k int :: {s[k]} 0 <= k && k < m ==> s[k].link == s[k]
//@   ensures  [C10] others: forall x *entry[T] :: {x.link} x.link == old(x.link) || (exists k int :: 0 <= k && k < m && x == s[k])
//@   modifies every(e.link)
//@   at entry: ghost i = 0
//@   at after "e = next": ghost i = i + 1
//@   loop 1: invariant [C10] idx: 0 <= i && i <= m && (i < m ==> e == s[i]) && (i == m ==> e == nil)
//@   loop 1: invariant [C10] done: forall k int :: {s[k]} 0 <= k && k < i ==> s[k].link == s[k]
//@   loop 1: invariant [C10] todo: forall k int :: {s[k]} i <= k && k < m ==> s[k].link == old(s[k].link)
//@   loop 1: invariant [C10] others: forall x *entry[T] :: {x.link} x.link == old(x.link) || (exists k int :: 0 <= k && k < i && x == s[k])
//@   loop 1: invariant [C10] shape: chain(old(e), s, m) || true
//@
//@ func (*Cursor).Truncate
//@   requires [C10] cursorWF(c) && (!stale(c) ==> cursorAt(c))
//@   panics when c.pred.link == c.pred
//@   ensures  [C10] inv: cursorAt(c) && c.list == old(c.list) && c.pos == old(c.pos) && c.list.n == c.pos
//@   ensures  [C10] kept: forall k int :: {c.list.seq[k]} 0 <= k && k <= c.pos ==> c.list.seq[k] == old(c.list.seq[k])
//@   ensures  [C10] cut: forall k int :: {old(c.list.seq[k])} c.pos < k && k <= old(c.list.n) ==> old(c.list.seq[k]).link == old(c.list.seq[k])
//@   ensures  [C10] values: forall x *entry[T] :: {x.X} old(allocated(x)) ==> x.X == old(x.X)
//@   modifies every(c.pred.link), c.list.n
//@   call invalidate#1: s = tl, m = c.list.n - c.pos
//@   at entry: assert [C10] !stale(c) ==> linkAt(c.list, c.pos)
//@   at entry: ghost tl = lambda k int :: c.list.seq[c.pos + 1 + k]
//@   at before "c.pred.link = nil": assert [C10] forall k int :: {c.list.seq[k]} c.pos < k && k <= c.list.n ==> tl[k - c.pos - 1] == c.list.seq[k]
//@   at before "c.pred.link = nil": assert [C10] forall k int :: {c.list.seq[k]} c.pos < k && k <= c.list.n ==> c.list.seq[k].link == c.list.seq[k]
//@   at exit: ghost c.list.n = c.pos
//@
//@ func (*Cursor).Add
//@   requires [C10] cursorWF(c) && (!stale(c) ==> cursorAt(c))
//@   panics when len(vs) > 0 && c.pred.link == c.pred
//@   ensures  [C10] inv: !old(stale(c)) ==> cursorAt(c) && c.list == old(c.list) && c.pos == old(c.pos) + len(vs) && c.list.n == old(c.list.n) + len(vs)
//@   ensures  [C10] added: !old(stale(c)) ==> forall k int :: {c.list.seq[k]} old(c.pos) < k && k <= c.pos ==> c.list.seq[k].X == vs[k - old(c.pos) - 1]
//@   ensures  [C10] before: !old(stale(c)) ==> forall k int :: {c.list.seq[k]} 0 <= k && k <= old(c.pos) ==> c.list.seq[k] == old(c.list.seq)[k]
//@   ensures  [C10] after: !old(stale(c)) ==> forall k int :: {c.list.seq[k]} c.pos < k && k <= c.list.n ==> c.list.seq[k] == old(c.list.seq)[k - len(vs)]
//@   ensures  [C10] values: forall x *entry[T] :: {x.X} old(allocated(x)) ==> x.X == old(x.X)
//@   modifies c.pred, c.pos, every(c.pred.link), c.list.seq, c.list.n
//@   loop 1: invariant [C10] wf: cursorWF(c) && (old(stale(c)) ==> it1 == 0 && c.pred == old(c.pred) && stale(c))
//@   loop 1: invariant [C10] inv: !old(stale(c)) ==> cursorAt(c) && c.list == old(c.list) && c.pos == old(c.pos) + it1 && c.list.n == old(c.list.n) + it1
//@   loop 1: invariant [C10] added: !old(stale(c)) ==> forall k int :: {c.list.seq[k]} old(c.pos) < k && k <= c.pos ==> c.list.seq[k].X == vs[k - old(c.pos) - 1]
//@   loop 1: invariant [C10] before: !old(stale(c)) ==> forall k int :: {c.list.seq[k]} 0 <= k && k <= old(c.pos) ==> c.list.seq[k] == old(c.list.seq)[k]
//@   loop 1: invariant [C10] after: !old(stale(c)) ==> forall k int :: {c.list.seq[k]} c.pos < k && k <= c.list.n ==> c.list.seq[k] == old(c.list.seq)[k - it1]
//@   loop 1: invariant [C10] values: forall x *entry[T] :: {x.X} old(allocated(x)) ==> x.X == old(x.X)
//@
//@ func (*List).Clear
//@   requires [C10] listOK(lst)
//@   ensures  [C10] empty: listOK(lst) && lst.n == 0
//@   ensures  [C10] cut: forall k int :: {old(lst.seq)[k]} 0 < k && k <= old(lst.n) ==> old(lst.seq)[k].link == old(lst.seq)[k]
//@   ensures  [C10] values: forall x *entry[T] :: {x.X} old(allocated(x)) ==> x.X == old(x.X)
//@   modifies every(lst.first.link), lst.n
//@   at entry: ghost tl = lambda k int :: lst.seq[1 + k]
//@   at entry: assert [C10] linkAt(lst, 0)
//@   call invalidate#1: s = tl, m = lst.n
//@   at before "lst.first.link = nil": assert [C10] forall k int :: {lst.seq[k]} 0 < k && k <= lst.n ==> tl[k - 1] == lst.seq[k] && lst.seq[k].link == lst.seq[k]
//@   at exit: ghost lst.n = 0
//@
//@ func (*List).At
//@   requires [C10] listOK(lst)
//@   panics when n < 0
//@   ensures  [C10] fresh(result) && cursorWF(result) && cursorAt(result) && result.list == lst && result.pos == min(old(n), lst.n)
//@   loop 1: invariant [C10] cursorWF(cur) && cursorAt(cur) && cur.list == lst && fresh(cur) && n >= 0 && cur.pos + n == old(n) && (cur.pos <= lst.n)
//@
//@ func (*List).Last
//@   requires [C10] listOK(lst)
//@   ensures  [C10] fresh(result) && cursorWF(result) && cursorAt(result) && result.list == lst && result.pos == max(lst.n - 1, 0)
//@   loop 1: invariant [C10] cursorWF(cur) && cursorAt(cur) && cur.list == lst && fresh(cur) && cur.pos < lst.n
//@   loop 1: invariant [C10] links: linkAt(lst, cur.pos) && linkAt(lst, cur.pos + 1)
//@
//@ func (*List).End
//@   requires [C10] listOK(lst)
//@   ensures  [C10] fresh(result) && cursorWF(result) && cursorAt(result) && result.list == lst && result.pos == lst.n
//@
//@ func (*List).Find
//@   role f pred
//@   requires [C10] listOK(lst)
//@   ensures  [C10] pos: fresh(result) && cursorWF(result) && cursorAt(result) && result.list == lst
//@   ensures  [C10] found: result.pos < lst.n ==> holds(f, val(lst, result.pos))
//@   ensures  [C10] first: forall i int :: {lst.seq[i + 1]} 0 <= i && i < result.pos ==> !holds(f, val(lst, i))
//@   loop 1: invariant [C10] cursorWF(cur) && cursorAt(cur) && cur.list == lst && fresh(cur)
//@   loop 1: invariant [C10] first: forall i int :: {lst.seq[i + 1]} 0 <= i && i < cur.pos ==> !holds(f, val(lst, i))
//@
//@ func (*List).Peek
//@   requires [C10] listOK(lst)
//@   panics when n < 0
//@   ensures  [C10] in: n < lst.n ==> result.1 && result.0 == val(lst, n)
//@   ensures  [C10] out: n >= lst.n ==> !result.1 && result.0 == zero
//@   at after "cur := lst.At(n)": assert [C10] linkAt(lst, cur.pos) && !stale(cur)
//@
//@ func (*List).Each
//@   role f yield
//@   requires [C10] listOK(lst)
//@   ensures  [C10] count: ncalls(f) >= old(ncalls(f)) && ncalls(f) - old(ncalls(f)) <= lst.n
//@   ensures  [C10] args: forall j int :: {callarg(f, j)} old(ncalls(f)) <= j && j < ncalls(f) ==> callarg(f, j) == val(lst, j - old(ncalls(f)))
//@   ensures  [C10] went: forall j int :: {callret(f, j)} old(ncalls(f)) <= j && j < ncalls(f) - 1 ==> callret(f, j)
//@   ensures  [C10] stopped: ncalls(f) - old(ncalls(f)) < lst.n ==> ncalls(f) > old(ncalls(f)) && !callret(f, ncalls(f) - 1)
//@   modifies calls(f)
//@   loop 1: invariant [C10] cursorWF(cur) && cursorAt(cur) && cur.list == lst && fresh(cur) && cur.pos == ncalls(f) - old(ncalls(f))
//@   loop 1: invariant [C10] args: forall j int :: {callarg(f, j)} {callret(f, j)} old(ncalls(f)) <= j && j < ncalls(f) ==> callarg(f, j) == val(lst, j - old(ncalls(f))) && callret(f, j)
//@
// Queue: the embedded list holds the elements oldest first; back is a cursor at the end of it (or still the zero
// cursor of a zero Queue, whose pred is nil); size is the number of elements.
//@ byref Queue
//@ pred queueOK(q *Queue[T]) := q != nil && allocated(q) && listOK(q.list) && q.size == q.list.n
//@+     && (q.back.pred == nil ==> q.list.n == 0)
//@+     && (q.back.pred != nil ==> q.back.list == q.list && q.back.pos == q.list.n && cursorWF(q.back) && cursorAt(q.back))
//@
//@ func NewQueue
//@   ensures [C10] result != nil && fresh(result) && queueOK(result) && result.size == 0
//@   at after "q := new(Queue[T])": ghost q.list.seq = upd(q.list.seq, 0, q.list.first)
//@   at after "q := new(Queue[T])": ghost q.list.n = 0
//@
//@ func (*Queue).Len
//@   requires q != nil
//@   ensures  result == q.size
//@
//@ func (*Queue).IsEmpty
//@   requires [C10] queueOK(q)
//@   ensures  [C10] result == (q.size == 0)
//@
//@ func (*Queue).Add
//@   requires [C10] queueOK(q)
//@   ensures  [C10] inv: queueOK(q) && q.size == old(q.size) + 1 && q.list.seq[q.list.n].X == v
//@   ensures  [C10] kept: forall k int :: {q.list.seq[k]} 0 <= k && k <= old(q.list.n) ==> q.list.seq[k] == old(q.list.seq)[k]
//@   ensures  [C10] values: forall x *entry[T] :: {x.X} old(allocated(x)) ==> x.X == old(x.X)
//@   modifies q.size, q.back.pred, q.back.pos, q.back.list, every(q.list.first.link), q.list.seq, q.list.n
//@
//@ func (*Queue).Front
//@   requires [C10] queueOK(q)
//@   ensures  [C10] some: q.size > 0 ==> result == val(q.list, 0)
//@   ensures  [C10] none: q.size == 0 ==> result == zero
//@
//@ func (*Queue).Peek
//@   requires [C10] queueOK(q)
//@   panics when n < 0
//@   ensures  [C10] in: n < q.size ==> result.1 && result.0 == val(q.list, n)
//@   ensures  [C10] out: n >= q.size ==> !result.1 && result.0 == zero
//@
//@ func (*Queue).Pop
//@   requires [C10] queueOK(q)
//@   ensures  [C10] inv: queueOK(q)
//@   ensures  [C10] empty: old(q.size) == 0 ==> !result.1 && result.0 == zero && q.size == 0
//@   ensures  [C10] popped: old(q.size) > 0 ==> result.1 && result.0 == old(val(q.list, 0)) && q.size == old(q.size) - 1
//@   ensures  [C10] shifted: forall k int :: {q.list.seq[k]} 0 < k && k <= q.list.n ==> q.list.seq[k] == old(q.list.seq)[k + 1]
//@   ensures  [C10] values: forall x *entry[T] :: {x.X} old(allocated(x)) ==> x.X == old(x.X)
//@   modifies q.size, q.back.pred, q.back.pos, q.back.list, every(q.list.first.link), q.list.seq, q.list.n
//@   at after "cur.Remove()": ghost q.back.pos = q.back.pos - 1
//@
//@ func (*Queue).Clear
//@   requires [C10] queueOK(q)
//@   ensures  [C10] queueOK(q) && q.size == 0
//@   modifies q.size, q.back.pred, q.back.pos, q.back.list, every(q.list.first.link), q.list.n
//@
//@ func (*Queue).Each
//@   role f yield
//@   requires [C10] queueOK(q)
//@   ensures  [C10] count: ncalls(f) >= old(ncalls(f)) && ncalls(f) - old(ncalls(f)) <= q.size
//@   ensures  [C10] args: forall j int :: {callarg(f, j)} old(ncalls(f)) <= j && j < ncalls(f) ==> callarg(f, j) == val(q.list, j - old(ncalls(f)))
//@   ensures  [C10] went: forall j int :: {callret(f, j)} old(ncalls(f)) <= j && j < ncalls(f) - 1 ==> callret(f, j)
//@   ensures  [C10] stopped: ncalls(f) - old(ncalls(f)) < q.size ==> ncalls(f) > old(ncalls(f)) && !callret(f, ncalls(f) - 1)
//@   modifies calls(f)
//@
//@ func (*List).Len
//@   requires [C10] listOK(lst)
//@   ensures  [C10] result == lst.n
//@   loop 1: invariant [C10] n == it1 && forall k int :: {yret1[k]} 0 <= k && k < it1 ==> yret1[k]
