//go:build verif

package mbits

// Contracts for the verification harness in /verif (see /verif/DESIGN.md).
// This file is comment-only and is compiled only under the build tag "verif".
//
// C20 (mbits part): byte-by-byte definitions; the unsafe word access is modelled as 8 adjacent bytes with an
// in-bounds obligation.
//
//@ spec nzFrom(data []byte, lo int, c int) bool := (lo <= c && data[c] != 0) || (lo <= c+1 && data[c+1] != 0) || (lo <= c+2 && data[c+2] != 0) || (lo <= c+3 && data[c+3] != 0)
//@+     || (lo <= c+4 && data[c+4] != 0) || (lo <= c+5 && data[c+5] != 0) || (lo <= c+6 && data[c+6] != 0) || (lo <= c+7 && data[c+7] != 0)
//@ spec nzUpTo(data []byte, hi int, c int) bool := (c <= hi && data[c] != 0) || (c+1 <= hi && data[c+1] != 0) || (c+2 <= hi && data[c+2] != 0) || (c+3 <= hi && data[c+3] != 0)
//@+     || (c+4 <= hi && data[c+4] != 0) || (c+5 <= hi && data[c+5] != 0) || (c+6 <= hi && data[c+6] != 0) || (c+7 <= hi && data[c+7] != 0)
//@
//@ func Zero
//@   ensures [C20] result == len(data)
//@   ensures [C20] zeroed: forall k int :: {data[k]} 0 <= k && k < len(data) ==> data[k] == 0
//@   modifies elems(data)
//@   loop 1: invariant idx: 0 <= i && i <= m && emod(i, 8) == 0 && m <= n && emod(m, 8) == 0 && n == len(data)
//@   loop 1: invariant zeroed: forall k int :: {data[k]} 0 <= k && k < i ==> data[k] == 0
//@   loop 1: invariant outside: unchanged_outside(data)
//@   loop 1: decreases m - i
//@   loop 2: invariant idx: m <= i && i <= n && n == len(data)
//@   loop 2: invariant zeroed: forall k int :: {data[k]} 0 <= k && k < i ==> data[k] == 0
//@   loop 2: invariant outside: unchanged_outside(data)
//@   loop 2: decreases n - i
//@
//@ func LeadingZeroes
//@   pure
//@   ensures [C20] range: 0 <= result && result <= len(data)
//@   ensures [C20] zeros: forall k int :: {data[k]} 0 <= k && k < result ==> data[k] == 0
//@   ensures [C20] stop: result < len(data) ==> data[result] != 0
//@   loop 1: invariant idx: 0 <= i && i <= m && emod(i, 8) == 0 && m <= n && emod(m, 8) == 0 && n == len(data)
//@   loop 1: invariant zeros: forall k int :: {data[k]} 0 <= k && k < i ==> data[k] == 0
//@   loop 1: decreases m - i
//@   at loop 1 head: ghost c0 = i
//@   loop 2: invariant idx: c0 <= i && i < c0 + 8 && c0 + 8 <= n && n == len(data) && 0 <= c0
//@   loop 2: invariant zeros: forall k int :: {data[k]} 0 <= k && k < i ==> data[k] == 0
//@   loop 2: invariant nonzero: nzFrom(data, i, c0)
//@   loop 2: decreases c0 + 8 - i
//@   loop 3: invariant idx: 0 <= i && i <= n && n == len(data)
//@   loop 3: invariant zeros: forall k int :: {data[k]} 0 <= k && k < i ==> data[k] == 0
//@   loop 3: decreases n - i
//@
//@ func TrailingZeroes
//@   pure
//@   ensures [C20] range: 0 <= result && result <= len(data)
//@   ensures [C20] zeros: forall k int :: {data[k]} len(data) - result <= k && k < len(data) ==> data[k] == 0
//@   ensures [C20] stop: result < len(data) ==> data[len(data) - result - 1] != 0
//@   loop 1: invariant idx: n == len(data) && 0 <= m && m < 8 && m <= n && emod(n - m, 8) == 0 && m - 8 <= i && i <= n - 8 && emod(i - m, 8) == 0 && nz == n - 8 - i
//@   loop 1: invariant zeros: forall k int :: {data[k]} i + 8 <= k && k < n ==> data[k] == 0
//@   loop 1: decreases i - m + 8
//@   at loop 1 head: ghost c0 = i
//@   loop 2: invariant idx: n == len(data) && 0 <= c0 && c0 + 8 <= n && c0 - 8 < i && i <= c0 && nz == n - 8 - i
//@   loop 2: invariant zeros: forall k int :: {data[k]} i + 8 <= k && k < n ==> data[k] == 0
//@   loop 2: invariant nonzero: nzUpTo(data, i + 7, c0)
//@   loop 2: decreases i - c0 + 8
//@   loop 3: invariant idx: n == len(data) && -1 <= m && m < n && nz == n - 1 - m
//@   loop 3: invariant zeros: forall k int :: {data[k]} m < k && k < n ==> data[k] == 0
//@   loop 3: decreases m + 1
