//go:build verif

package ring

// Contracts for the verification harness in /verif (see /verif/DESIGN.md).
// This file is comment-only and is compiled only under the build tag "verif".
//
// C10 (ring part). Representation invariant of the whole heap of ring elements: Next and Prev are mutually inverse
// and never nil (`linked`). It is written over pairs (x, y) so that no trigger term occurs in its own body.
// New and Of additionally expose the cycle they build as a ghost sequence: following Next from the result visits
// cyc[0], cyc[n-1], cyc[n-2], …, cyc[1] and returns to cyc[0]; the elements are fresh and pairwise different.
// Join and Pop are specified by the exact four pointer updates the documentation's pictures amount to, with every
// other element's links and every Value unchanged; that the cycles as wholes are the documented ones is a bounded
// stand-in (reachability is outside the contract language).
//
//@ pred linked() := (forall x *Ring[T] :: {x.next} x != nil && allocated(x) ==> x.next != nil && allocated(x.next))
//@+     && (forall x *Ring[T] :: {x.prev} x != nil && allocated(x) ==> x.prev != nil && allocated(x.prev))
//@+     && (forall x *Ring[T], y *Ring[T] :: {x.next, y.prev} x != nil && allocated(x) && y != nil && allocated(y) ==> (x.next == y <==> y.prev == x))
//@ pred cycle(r *Ring[T], cyc imap[*Ring[T]], n int) := n >= 1 && cyc[0] == r && r.next == cyc[n - 1]
//@+     && (forall k int :: {cyc[k]} 0 <= k && k < n ==> cyc[k] != nil && fresh(cyc[k]))
//@+     && (forall k int :: {cyc[k]} 1 <= k && k < n ==> cyc[k].next == cyc[k - 1])
//@+     && (forall j int, k int :: {cyc[j], cyc[k]} 0 <= j && j < k && k < n ==> cyc[j] != cyc[k])
//@
//@ func newRing
//@   ensures [C10] self: result != nil && fresh(result) && result.next == result && result.prev == result
//@   ensures [C10] inv: old(linked()) ==> linked()
//@
//@ func New
//@   ghostret cyc imap[*Ring[T]]
//@   requires [C10] linked()
//@   ensures  [C10] none: n <= 0 ==> result == nil
//@   ensures  [C10] ring: n > 0 ==> cycle(result, cyc, n)
//@   ensures  [C10] inv: linked()
//@
//@ func (*Ring).Next
//@   pure
//@   requires r != nil
//@   ensures  result == r.next
//@
//@ func (*Ring).Prev
//@   pure
//@   requires r != nil
//@   ensures  result == r.prev
//@
//@ func (*Ring).IsEmpty
//@   pure
//@   ensures  result == (r == nil)
//@
//@ func (*Ring).Join
//@   requires r != nil && s != nil && allocated(r) && allocated(s)
//@   requires [C10] linked()
//@   ensures  [C10] same: (r == s || old(r.next) == s) ==> result == nil && r.next == old(r.next) && s.prev == old(s.prev)
//@   ensures  [C10] splice: !(r == s || old(r.next) == s) ==> result == old(r.next) && r.next == s && s.prev == r && old(s.prev).next == old(r.next) && old(r.next).prev == old(s.prev)
//@   ensures  [C10] othersNext: forall x *Ring[T] :: {x.next} x != r && x != old(s.prev) ==> x.next == old(x.next)
//@   ensures  [C10] othersPrev: forall x *Ring[T] :: {x.prev} x != s && x != old(r.next) ==> x.prev == old(x.prev)
//@   ensures  [C10] inv: linked()
//@   modifies r.next, s.prev, s.prev.next, r.next.prev
//@
//@ func (*Ring).Pop
//@   requires r != nil ==> allocated(r)
//@   requires [C10] linked()
//@   ensures  [C10] self: result == r && (r != nil ==> r.next == r && r.prev == r)
//@   ensures  [C10] bridge: r != nil && old(r.prev) != r ==> old(r.prev).next == old(r.next) && old(r.next).prev == old(r.prev)
//@   ensures  [C10] othersNext: forall x *Ring[T] :: {x.next} x != r && x != old(r.prev) ==> x.next == old(x.next)
//@   ensures  [C10] othersPrev: forall x *Ring[T] :: {x.prev} x != r && x != old(r.next) ==> x.prev == old(x.prev)
//@   ensures  [C10] inv: linked()
//@   modifies r.next, r.prev, r.prev.next, r.next.prev
