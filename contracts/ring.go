//go:build verif

package ring

// Contracts for the verification harness in /verif (see /verif/DESIGN.md).
// This file is comment-only and is compiled only under the build tag "verif".
//
// C10 (ring part). Representation invariant of the whole heap of ring elements: Next and Prev are mutually inverse
// and never nil (`linked`). It is written over pairs (x, y) so that no trigger term occurs in its own body.
// New and Of additionally expose the cycle they build as a ghost sequence: following Next from the result visits
// cyc[0], cyc[n-1], cyc[n-2], …, cyc[1] and returns to cyc[0]; the elements are fresh and pairwise different.
// Join and Pop are specified by the exact four pointer updates the documentation's pictures amount to, with every
// other element's links and every Value unchanged; that the cycles as wholes are the documented ones is a bounded
// stand-in (reachability is outside the contract language).
//
//@ pred linked() := (forall x *Ring[T] :: {x.next} x != nil && allocated(x) ==> x.next != nil && allocated(x.next))
//@+     && (forall x *Ring[T] :: {x.prev} x != nil && allocated(x) ==> x.prev != nil && allocated(x.prev))
//@+     && (forall x *Ring[T], y *Ring[T] :: {x.next, y.prev} x != nil && allocated(x) && y != nil && allocated(y) ==> (x.next == y <==> y.prev == x))
//@ pred cycle(r *Ring[T], cyc imap[*Ring[T]], n int) := n >= 1 && cyc[0] == r && r.next == cyc[n - 1]
//@+     && (forall k int :: {cyc[k]} 0 <= k && k < n ==> cyc[k] != nil && fresh(cyc[k]))
//@+     && (forall k int :: {cyc[k]} 1 <= k && k < n ==> cyc[k].next == cyc[k - 1])
//@+     && (forall j int, k int :: {cyc[j], cyc[k]} 0 <= j && j < k && k < n ==> cyc[j] != cyc[k])
//@
//@ func newRing
//@   ensures [C10] self: result != nil && fresh(result) && result.next == result && result.prev == result
//@   ensures [C10] inv: old(linked()) ==> linked()
//@
//@ func New
//@   ghostret cyc imap[*Ring[T]]
//@   requires [C10] linked()
//@   ensures  [C10] none: n <= 0 ==> result == nil
//@   ensures  [C10] ring: n > 0 ==> cycle(result, cyc, n)
//@   ensures  [C10] inv: linked()
//@   at after "r := newRing[T]()": ghost cyc[0] = r
//@   at after "r := newRing[T]()": ghost m = 1
//@   at after "r.next = elt": ghost cyc[m] = elt
//@   at after "r.next = elt": ghost m = m + 1
//@   loop 1: invariant count: n >= 1 && m == old(n) - n + 1 && r == cyc[0]
//@   loop 1: invariant ring: cycle(r, cyc, m)
//@   loop 1: invariant inv: linked()
//@   loop 1: invariant frameNext: forall x *Ring[T] :: {x.next} old(allocated(x)) ==> x.next == old(x.next)
//@   loop 1: invariant framePrev: forall x *Ring[T] :: {x.prev} old(allocated(x)) ==> x.prev == old(x.prev)
//@   loop 1: invariant frameVal: forall x *Ring[T] :: {x.Value} old(allocated(x)) ==> x.Value == old(x.Value)
//@   loop 1: decreases n
//@
//@ spec nodeAt(cyc imap[*Ring[T]], n int, k int) *Ring[T] := ite(k == 0 || k == n, cyc[0], cyc[n - k])
//@
//@ func Of
//@   ghostret cyc imap[*Ring[T]]
//@   requires [C10] linked()
//@   ensures  [C10] none: len(vs) == 0 ==> result == nil
//@   ensures  [C10] ring: len(vs) > 0 ==> cycle(result, cyc, len(vs))
//@   ensures  [C10] vals: forall k int :: {vs[k]} 0 <= k && k < len(vs) ==> nodeAt(cyc, len(vs), k).Value == vs[k]
//@   ensures  [C10] inv: linked()
//@   at after "r := New[T](len(vs))": ghost cyc = New_cyc
//@   loop 1: invariant pos: len(vs) > 0 ==> cur == nodeAt(cyc, len(vs), it1) && cycle(r, cyc, len(vs))
//@   loop 1: invariant vals: forall k int :: {vs[k]} 0 <= k && k < it1 ==> nodeAt(cyc, len(vs), k).Value == vs[k]
//@   loop 1: invariant frameVal: forall x *Ring[T] :: {x.Value} old(allocated(x)) ==> x.Value == old(x.Value)
//@
//@ func (*Ring).Next
//@   pure
//@   requires r != nil
//@   ensures  result == r.next
//@
//@ func (*Ring).Prev
//@   pure
//@   requires r != nil
//@   ensures  result == r.prev
//@
//@ func (*Ring).IsEmpty
//@   pure
//@   ensures  result == (r == nil)
//@
//@ func (*Ring).Join
//@   requires r != nil && s != nil && allocated(r) && allocated(s)
//@   requires [C10] linked()
//@   ensures  [C10] same: (r == s || old(r.next) == s) ==> result == nil && r.next == old(r.next) && s.prev == old(s.prev)
//@   ensures  [C10] splice: !(r == s || old(r.next) == s) ==> result == old(r.next) && r.next == s && s.prev == r && old(s.prev).next == old(r.next) && old(r.next).prev == old(s.prev)
//@   ensures  [C10] othersNext: forall x *Ring[T] :: {x.next} x != r && x != old(s.prev) ==> x.next == old(x.next)
//@   ensures  [C10] othersPrev: forall x *Ring[T] :: {x.prev} x != s && x != old(r.next) ==> x.prev == old(x.prev)
//@   ensures  [C10] inv: linked()
//@   modifies r.next, s.prev, s.prev.next, r.next.prev
//@
//@ func (*Ring).Pop
//@   requires r != nil ==> allocated(r)
//@   requires [C10] linked()
//@   ensures  [C10] self: result == r && (r != nil ==> r.next == r && r.prev == r)
//@   ensures  [C10] bridge: r != nil && old(r.prev) != r ==> old(r.prev).next == old(r.next) && old(r.next).prev == old(r.prev)
//@   ensures  [C10] othersNext: forall x *Ring[T] :: {x.next} x != r && x != old(r.prev) ==> x.next == old(x.next)
//@   ensures  [C10] othersPrev: forall x *Ring[T] :: {x.prev} x != r && x != old(r.next) ==> x.prev == old(x.prev)
//@   ensures  [C10] inv: linked()
//@   modifies r.next, r.prev, r.prev.next, r.next.prev
//@
//@ pred ringSeq(r *Ring[T], seq imap[*Ring[T]], L int) := L >= 1 && seq[0] == r && seq[L - 1].next == seq[0]
//@+     && (forall k int :: {seq[k]} 0 <= k && k < L ==> seq[k] != nil && allocated(seq[k]))
//@+     && (forall k int :: {seq[k]} 0 <= k && k < L - 1 ==> seq[k].next == seq[k + 1])
//@+     && (forall j int, k int :: {seq[j], seq[k]} 0 <= j && j < k && k < L ==> seq[j] != seq[k])
//@
//@ func (*Ring).At
//@   ghost seq imap[*Ring[T]], L int
//@   requires [C10] linked()
//@   requires [C10] r != nil ==> ringSeq(r, seq, L)
//@   ensures  [C10] empty: r == nil ==> result == nil
//@   ensures  [C10] fwd: r != nil && 0 <= n && n < L ==> result == seq[n]
//@   ensures  [C10] back: r != nil && 0 < -n && -n < L ==> result == seq[L + n]
//@   ensures  [C10] beyond: r != nil && (n >= L || -n >= L) ==> result == nil
//@   loop 1: invariant idx: r != nil && n >= 0 && n <= absn(old(n)) && absn(old(n)) - n < L
//@   loop 1: invariant pos: cur == ite(old(n) >= 0, seq[absn(old(n)) - n], ite(absn(old(n)) == n, seq[0], seq[L - (absn(old(n)) - n)]))
//@   loop 1: decreases n
//@
//@ spec absn(n int) int := ite(n < 0, -n, n)
//@
//@ spec atNode(seq imap[*Ring[T]], L int, n int) *Ring[T] := ite(n >= 0, seq[n], seq[L + n])
//@
//@ func (*Ring).Peek
//@   ghost seq imap[*Ring[T]], L int
//@   requires [C10] linked()
//@   requires [C10] r != nil ==> ringSeq(r, seq, L)
//@   ensures  [C10] none: r == nil || n >= L || -n >= L ==> !result.1 && result.0 == zero
//@   ensures  [C10] some: r != nil && -L < n && n < L ==> result.1 && result.0 == atNode(seq, L, n).Value
//@   call At#1: seq = seq, L = L
//@
//@ func scan
//@   ghost seq imap[*Ring[T]], L int
//@   role f yield
//@   requires [C10] linked()
//@   requires [C10] r != nil ==> ringSeq(r, seq, L)
//@   ensures  [C10] empty: r == nil ==> ncalls(f) == old(ncalls(f))
//@   ensures  [C10] count: ncalls(f) >= old(ncalls(f)) && (r != nil ==> ncalls(f) > old(ncalls(f)) && ncalls(f) - old(ncalls(f)) <= L)
//@   ensures  [C10] args: r != nil ==> forall i int :: 0 <= i && i < ncalls(f) - old(ncalls(f)) ==> callarg(f, old(ncalls(f)) + i) == seq[i]
//@   ensures  [C10] went: forall i int :: 0 <= i && i < ncalls(f) - old(ncalls(f)) - 1 ==> callret(f, old(ncalls(f)) + i)
//@   ensures  [C10] stopped: r != nil && ncalls(f) - old(ncalls(f)) < L ==> !callret(f, ncalls(f) - 1)
//@   modifies calls(f)
//@   loop 1: invariant idx: r != nil && ncalls(f) >= old(ncalls(f)) && ncalls(f) - old(ncalls(f)) < L && cur == seq[ncalls(f) - old(ncalls(f))]
//@   loop 1: invariant args: forall j int :: {callret(f, j)} {callarg(f, j)} old(ncalls(f)) <= j && j < ncalls(f) ==> callarg(f, j) == seq[j - old(ncalls(f))] && callret(f, j)
//@   loop 1: invariant shape: linked() && ringSeq(r, seq, L)
//@
//@ func (*Ring).Len
//@   ghost seq imap[*Ring[T]], L int
//@   requires [C10] linked()
//@   requires [C10] r != nil ==> ringSeq(r, seq, L)
//@   ensures  [C10] empty: r == nil ==> result == 0
//@   ensures  [C10] size: r != nil ==> result == L
//@   call scan#1: seq = seq, L = L
//@   loop 1: invariant [C10] n == it1 && forall k int :: {yret1[k]} 0 <= k && k < it1 ==> yret1[k]
//@
//@ func (*Ring).Each
//@   ghost seq imap[*Ring[T]], L int
//@   role f yield
//@   requires [C10] linked()
//@   requires [C10] r != nil ==> ringSeq(r, seq, L)
//@   ensures  [C10] empty: r == nil ==> ncalls(f) == old(ncalls(f))
//@   ensures  [C10] count: ncalls(f) >= old(ncalls(f)) && (r != nil ==> ncalls(f) > old(ncalls(f)) && ncalls(f) - old(ncalls(f)) <= L)
//@   ensures  [C10] args: r != nil ==> forall j int :: {callarg(f, j)} old(ncalls(f)) <= j && j < ncalls(f) ==> callarg(f, j) == seq[j - old(ncalls(f))].Value
//@   ensures  [C10] went: forall j int :: {callret(f, j)} old(ncalls(f)) <= j && j < ncalls(f) - 1 ==> callret(f, j)
//@   ensures  [C10] stopped: r != nil && ncalls(f) - old(ncalls(f)) < L ==> !callret(f, ncalls(f) - 1)
//@   modifies calls(f)
//@   call scan#1: seq = seq, L = L
//@   loop 1: invariant [C10] count: ncalls(f) == old(ncalls(f)) + it1
//@   loop 1: invariant [C10] args: forall j int :: {callarg(f, j)} old(ncalls(f)) <= j && j < ncalls(f) ==> callarg(f, j) == seq[j - old(ncalls(f))].Value
//@   loop 1: invariant [C10] rets: forall k int :: {yret1[k]} 0 <= k && k < it1 ==> callret(f, old(ncalls(f)) + k) == yret1[k]
