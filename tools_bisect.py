#!/usr/bin/env python3
# usage: tools_bisect.py file.smt2 : reports which single assertion (or pair) removal makes the query quickly unsat
import subprocess,sys,itertools
f=sys.argv[1]
lines=open(f).read().split('\n')
idx=[i for i,l in enumerate(lines) if l.startswith('(assert')][:-1]
def run(skip,solver='z3-new',t=3):
    open('/tmp/t.smt2','w').write('\n'.join(l for i,l in enumerate(lines) if i not in skip))
    try:
        r=subprocess.run([solver,'-T:%d'%t,'/tmp/t.smt2'],capture_output=True,text=True,timeout=t+3).stdout.strip().split('\n')[0]
    except Exception as e: r='timeout'
    return r
print('full z3-new',run(set()), 'z3', run(set(),'z3'))
for i in idx:
    r=run({i}); r2='-'
    if r not in('unsat',): r2=run({i},'z3')
    if r=='unsat' or r2=='unsat': print('removing',i,'->',r,r2, lines[i][:300])
