#!/bin/bash
# Runs every registered quick check on /repo's working tree (3 at a time) and lists the ones that do not exit 0.
# usage: tools_check_all.sh [learn]      ("learn" refreshes solver_hints.json, sequentially)
cd /verif || exit 2
export GOFLAGS=-mod=mod GOPROXY=off GOSUMDB=off GOTOOLCHAIN=local
go build -o bin/govc ./cmd/govc || exit 2
ids=$(python3 -c "import json;print(' '.join(c['property_id'] for c in json.load(open('MANIFEST.json'))['checks']))")
if [ "${1:-}" = learn ]; then
  for id in $ids; do GOVC_LEARN=1 ./bin/govc check $id --tier quick > /tmp/chk.$id.log 2>&1; echo "$id exit $? $(tail -1 /tmp/chk.$id.log)"; done | tee /tmp/chk.all.log
else
  echo $ids | tr ' ' '\n' | xargs -P 3 -I{} sh -c './bin/govc check {} --tier quick > /tmp/chk.{}.log 2>&1; echo "{} exit $? $(tail -1 /tmp/chk.{}.log)"' | sort | tee /tmp/chk.all.log
fi
if grep -qv ' exit 0 ' /tmp/chk.all.log; then echo "NOT CLEAN:"; grep -v ' exit 0 ' /tmp/chk.all.log; exit 1; fi
echo "all $(wc -l < /tmp/chk.all.log) checks clean"
