#!/bin/bash
# Must-fail corpus: every seeded change under seeded/<id>-mN (and every canary under selftest/canaries) is applied to
# a scratch worktree of /repo's HEAD, the check of its property runs against that worktree (GOVC_REPO, GOVC_OUT), and
# the check has to exit 1 with a VIOLATION line. /repo and /verif/evidence are not touched.
# usage: tools_selftest.sh [-j N] [name-substring...]     results: seeded/RESULTS.tsv
set -u
export GOFLAGS=-mod=mod GOPROXY=off GOSUMDB=off GOTOOLCHAIN=local
cd /verif || exit 2
go build -o bin/govc ./cmd/govc || exit 2
jobs=2
if [ "${1:-}" = "-j" ]; then jobs=$2; shift 2; fi
list=()
for d in seeded/C*-m*; do
  [ -f "$d/patch.diff" ] || continue
  if [ $# -gt 0 ]; then ok=0; for s in "$@"; do case "$d" in *$s*) ok=1;; esac; done; [ $ok = 1 ] || continue; fi
  list+=("$d")
done
run_one() {
  d=$1; name=$(basename "$d"); prop=${name%%-*}
  props=$(python3 -c "import json;m=json.load(open('$d/meta.json'));print(' '.join(m.get('checks',[m['property']])))")
  w=$(mktemp -d /tmp/selftest.XXXXXX); o=$(mktemp -d /tmp/selftest-out.XXXXXX)
  git -C /repo worktree add -q --detach "$w/r" HEAD >/dev/null 2>&1 || { echo -e "$name\t-\tERROR worktree"; return; }
  if ! git -C "$w/r" apply "/verif/$d/patch.diff" 2>/dev/null; then echo -e "$name\t-\tERROR patch does not apply"; else
    for p in $props; do
      GOVC_REPO="$w/r" GOVC_OUT="$o" ./bin/govc check "$p" --tier quick > "$o/$p.log" 2>&1; rc=$?
      obl=$(grep '^VIOLATION' "$o/$p.log" | sed 's/.*obligation=//' | cut -d' ' -f1 | sort -u | head -4 | tr '\n' ' ')
      nv=$(grep -c '^VIOLATION' "$o/$p.log")
      conf=$(grep '^VIOLATION' "$o/$p.log" | grep -vc 'no-failing-input-found')   # counterexample replayed, or a stand-in's failing input
      if [ $rc = 1 ] && [ "$nv" -gt 0 ]; then st=DETECTED; else st="MISSED(exit=$rc)"; fi
      echo -e "$name\t$p\t$st\t$nv violation(s), $conf with a failing input on the real code\t$obl"
      if [ -n "${SELFTEST_KEEP:-}" ]; then mkdir -p "$SELFTEST_KEEP"; python3 - "$o/replays/$p" > "$SELFTEST_KEEP/$name.$p.txt" 2>/dev/null <<'PY'
import json,glob,sys
for f in sorted(glob.glob(sys.argv[1]+'/*.json')):
    d=json.load(open(f)); print(d.get('obligation'),'|',d.get('status'),'|',d.get('solvers'),'|',str(d.get('concretise_error'))[:160])
PY
      fi
    done
  fi
  git -C /repo worktree remove --force "$w/r" >/dev/null 2>&1; rm -rf "$w" "$o"
}
# canaries: each patch under selftest/canaries re-introduces a defect that was repaired by a fix: commit (F2, F3, F4,
# F7); the check of its property has to report it again
run_canary() {
  f=$1; name=$(basename "$f" .patch)
  case $name in F2*) p=C05;; F3*) p=C17;; F4*) p=C13;; F7*) p=C10;; *) return;; esac
  w=$(mktemp -d /tmp/selftest.XXXXXX); o=$(mktemp -d /tmp/selftest-out.XXXXXX)
  git -C /repo worktree add -q --detach "$w/r" HEAD >/dev/null 2>&1 || { echo -e "canary-$name\t-\tERROR worktree"; return; }
  if ! git -C "$w/r" apply "/verif/$f" 2>/dev/null; then echo -e "canary-$name\t$p\tERROR patch does not apply"; else
    GOVC_REPO="$w/r" GOVC_OUT="$o" ./bin/govc check "$p" --tier quick > "$o/$p.log" 2>&1; rc=$?
    nv=$(grep -c '^VIOLATION' "$o/$p.log"); obl=$(grep '^VIOLATION' "$o/$p.log" | sed 's/.*obligation=//' | cut -d' ' -f1 | sort -u | head -3 | tr '\n' ' ')
    if [ $rc = 1 ] && [ "$nv" -gt 0 ]; then st=DETECTED; else st="MISSED(exit=$rc)"; fi
    echo -e "canary-$name\t$p\t$st\t$nv violation(s) (repaired defect re-introduced)\t$obl"
  fi
  git -C /repo worktree remove --force "$w/r" >/dev/null 2>&1; rm -rf "$w" "$o"
}
export -f run_one run_canary
out=seeded/RESULTS.tsv; [ $# -gt 0 ] && out=/tmp/selftest.partial.tsv   # a filtered run does not replace the full table
{ printf '%s\n' "${list[@]}" | xargs -P "$jobs" -I{} bash -c 'run_one {}'; if [ $# -eq 0 ]; then for c in selftest/canaries/*.patch; do run_canary "$c"; done; fi; } | sort | tee "$out"
git -C /repo worktree prune
if grep -q 'MISSED\|ERROR' "$out"; then echo "SELFTEST: some seeded changes are not detected"; exit 1; fi
echo "SELFTEST: all $(wc -l < "$out") seeded change/check pairs detected"
