#!/usr/bin/env python3
# Regenerates DESIGN.md §0 from DESIGN-status.md (template) and seeded/RESULTS.tsv (selftest output).
import json
rows=[l.rstrip('\n').split('\t') for l in open('/verif/seeded/RESULTS.tsv') if l.startswith('C')]
out=['| seeded change | what it does (agent summary) | check | result | failing obligations (first four) |','|---|---|---|---|---|']
for r in rows:
    name,prop,st,cnt,obl=(r+['']*5)[:5]
    m=json.load(open(f'/verif/seeded/{name}/meta.json'))
    s=m['summary'].replace('|','/')
    if len(s)>150: s=s[:147]+'...'
    out.append(f"| {name} | {s} | {prop} | {st}; {cnt} | `{obl.strip()}` |")
import glob
claims=['| id | functions under contract (all of their obligations discharge on every run) | obligations | bounded stand-ins (bound quick; never counted as proved) | known findings |','|---|---|---|---|---|']
for f in sorted(glob.glob('/verif/evidence/C*.json')):
    e=json.load(open(f)); c=e['coverage']
    fns=', '.join(x['name'] for x in c['functions_under_contract'])
    bs='; '.join('%s (bound %s, %s cases)'%(b['name'],b['bound'],b.get('cases','?')) for b in c.get('bounded_standins',[])) or '—'
    kf='; '.join(sorted(set((k if isinstance(k,str) else k.get('obligation','?'))[:90] for k in c.get('known_findings',[])))) or '—'
    claims.append('| %s | %s | %s | %s | %s |'%(e.get('property_id',f[-8:-5]),fns,c['discharged'],bs,kf))
st=open('/verif/DESIGN-status.md').read().replace('@@RESULTS@@','\n'.join(out)).replace('@@CLAIMS@@','\n'.join(claims))
d=open('/verif/DESIGN.md').read()
a=d.index('## 0. Status as built'); b=d.index('---------------------------------------------------------------------------\n\n## 1. What is decided')
open('/verif/DESIGN.md','w').write(d[:a]+st+'\n'+d[b:])
print("DESIGN.md §0 regenerated,",len(rows),"seeded rows")
