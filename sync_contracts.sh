#!/bin/sh
# Copies the contract mirrors /verif/contracts/<pkg>.go to /repo/<pkg>/zz_contracts_verif.go (guarded by the build tag verif)
# and commits them in /repo as one hook commit per run.
cd /verif || exit 2
changed=""
for f in contracts/*.go; do
  pkg=$(basename "$f" .go)
  dst=/repo/$pkg/zz_contracts_verif.go
  if ! cmp -s "$f" "$dst"; then cp "$f" "$dst"; git -C /repo add "$pkg/zz_contracts_verif.go"; changed="$changed $pkg"; fi
done
if [ -n "$changed" ]; then git -C /repo commit -qm "verif: contract files (build tag verif) for:$changed" && echo "committed:$changed"; else echo "contracts in sync"; fi
