package stree

// Bounded stand-ins for C01 (DESIGN.md §0.2): (1) the two contracts that the proof of insert/remove assumes — rewrite
// and popMinRight — on every search-tree shape of at most GOVC_BOUND+2 nodes; (2) the whole Tree API against a
// reference sorted set for every history of at most GOVC_BOUND operations over 4 comparator classes with two
// distinguishable representatives each (so that "which representative is stored" is observable), for several balance
// factors, plus New with every initial key list up to length 4 and Clone independence.

import (
	"fmt"
	"os"
	"slices"
	"strconv"
	"testing"
)

type govcKey struct{ rank, tag int }

func govcCmp(a, b govcKey) int { return a.rank - b.rank }

// govcShapes enumerates every binary tree shape with n nodes, keys assigned in-order from lo.
func govcShapes(n, lo int) []*node[govcKey] {
	if n == 0 {
		return []*node[govcKey]{nil}
	}
	var out []*node[govcKey]
	for l := 0; l < n; l++ {
		for _, lt := range govcShapes(l, lo) {
			for _, rt := range govcShapes(n-1-l, lo+l+1) {
				out = append(out, &node[govcKey]{X: govcKey{lo + l, 0}, left: govcCopy(lt), right: govcCopy(rt)})
			}
		}
	}
	return out
}

func govcCopy(n *node[govcKey]) *node[govcKey] {
	if n == nil {
		return nil
	}
	return &node[govcKey]{X: n.X, left: govcCopy(n.left), right: govcCopy(n.right)}
}

func govcNodes(n *node[govcKey], out *[]*node[govcKey]) {
	if n != nil {
		govcNodes(n.left, out)
		*out = append(*out, n)
		govcNodes(n.right, out)
	}
}

func govcIsBST(n *node[govcKey]) error {
	var ns []*node[govcKey]
	govcNodes(n, &ns)
	seen := map[*node[govcKey]]bool{}
	for i, x := range ns {
		if seen[x] {
			return fmt.Errorf("node %v occurs twice", x.X)
		}
		seen[x] = true
		if i > 0 && govcCmp(ns[i-1].X, x.X) >= 0 {
			return fmt.Errorf("in-order keys not ascending: %v then %v", ns[i-1].X, x.X)
		}
	}
	return nil
}

func govcCheckAssumed(t *testing.T, maxNodes int) int {
	cases := 0
	for n := 0; n <= maxNodes; n++ {
		for _, shape := range govcShapes(n, 10) {
			// rewrite: same nodes, same in-order sequence, a search tree again
			a := govcCopy(shape)
			var before []*node[govcKey]
			govcNodes(a, &before)
			r := rewrite(a, n)
			var after []*node[govcKey]
			govcNodes(r, &after)
			cases++
			if !slices.Equal(before, after) {
				t.Fatalf("rewrite of a %d-node shape: node sequence changed (%d nodes before, %d after)", n, len(before), len(after))
			}
			if err := govcIsBST(r); err != nil {
				t.Fatalf("rewrite of a %d-node shape: %v", n, err)
			}
			if (r == nil) != (n == 0) {
				t.Fatalf("rewrite of a %d-node shape: nil-ness", n)
			}
			// popMinRight: needs root.right != nil
			b := govcCopy(shape)
			if b == nil || b.right == nil {
				continue
			}
			var rightBefore, allBefore []*node[govcKey]
			govcNodes(b.right, &rightBefore)
			govcNodes(b, &allBefore)
			left, x := b.left, b.X
			goat := popMinRight(b)
			cases++
			if goat != rightBefore[0] || goat.left != nil || goat.right != nil {
				t.Fatalf("popMinRight: did not return the detached leftmost node of root.right")
			}
			var rightAfter []*node[govcKey]
			govcNodes(b.right, &rightAfter)
			if !slices.Equal(rightAfter, rightBefore[1:]) {
				t.Fatalf("popMinRight: remaining right subtree has %d nodes, want the other %d in order", len(rightAfter), len(rightBefore)-1)
			}
			if b.left != left || b.X != x {
				t.Fatalf("popMinRight touched root.left or root.X")
			}
			if err := govcIsBST(b); err != nil {
				t.Fatalf("popMinRight: %v", err)
			}
		}
	}
	return cases
}

// reference sorted set: rank -> stored representative
type govcRef map[int]govcKey

func (r govcRef) sorted() []govcKey {
	var out []govcKey
	for _, v := range r {
		out = append(out, v)
	}
	slices.SortFunc(out, govcCmp)
	return out
}

func govcCompare(tr *Tree[govcKey], ref govcRef, ranks int) error {
	want := ref.sorted()
	if tr.Len() != len(want) || tr.IsEmpty() != (len(want) == 0) {
		return fmt.Errorf("Len = %d, IsEmpty = %v, reference %v", tr.Len(), tr.IsEmpty(), want)
	}
	var got []govcKey
	tr.Inorder(func(k govcKey) bool { got = append(got, k); return true })
	if !slices.Equal(got, want) {
		return fmt.Errorf("Inorder yields %v, reference %v", got, want)
	}
	if len(want) > 1 {
		n := 0
		tr.Inorder(func(govcKey) bool { n++; return false })
		if n != 1 {
			return fmt.Errorf("Inorder did not stop when asked")
		}
	}
	for r := -1; r <= ranks; r++ {
		probe := govcKey{r, 9}
		g, ok := tr.Get(probe)
		w, wok := ref[r]
		if ok != wok || g != w {
			return fmt.Errorf("Get(%v) = %v, %v; reference %v, %v", probe, g, ok, w, wok)
		}
		var after []govcKey
		for k := range tr.InorderAfter(probe) {
			after = append(after, k)
		}
		var wantAfter []govcKey
		for _, k := range want {
			if k.rank >= r {
				wantAfter = append(wantAfter, k)
			}
		}
		if !slices.Equal(after, wantAfter) {
			return fmt.Errorf("InorderAfter(%v) yields %v, reference %v", probe, after, wantAfter)
		}
		c := tr.Cursor(probe)
		if c.Valid() != wok || (wok && c.Key() != w) {
			return fmt.Errorf("Cursor(%v): valid = %v, key %v; reference %v, %v", probe, c.Valid(), c.Key(), w, wok)
		}
	}
	var zero govcKey
	mn, mx := tr.Min(), tr.Max()
	if len(want) == 0 {
		if mn != zero || mx != zero {
			return fmt.Errorf("Min/Max of an empty tree: %v, %v", mn, mx)
		}
	} else if mn != want[0] || mx != want[len(want)-1] {
		return fmt.Errorf("Min = %v, Max = %v, reference %v", mn, mx, want)
	}
	if err := govcIsBST(tr.root); err != nil {
		return err
	}
	if tr.root.size() != len(want) {
		return fmt.Errorf("tree holds %d nodes, reference %d", tr.root.size(), len(want))
	}
	return nil
}

func TestGovcBoundedStree(t *testing.T) {
	bound, _ := strconv.Atoi(os.Getenv("GOVC_BOUND"))
	if bound == 0 {
		bound = 4
	}
	cases := govcCheckAssumed(t, bound+2)

	const ranks = 4
	type op struct{ kind, rank, tag int } // 0 Add 1 Replace 2 Remove 3 Clear 4 continue on a Clone (the original must stay as it was)
	var alphabet []op
	for r := 0; r < ranks; r++ {
		for tag := 0; tag < 2; tag++ {
			alphabet = append(alphabet, op{0, r, tag}, op{1, r, tag})
		}
		alphabet = append(alphabet, op{2, r, 0})
	}
	alphabet = append(alphabet, op{3, 0, 0}, op{4, 0, 0})
	for _, beta := range []int{0, 300, 1000} {
		var hist []op
		var rec func(depth int)
		run := func() error {
			tr := New(beta, govcCmp)
			ref := govcRef{}
			for k, o := range hist {
				key := govcKey{o.rank, o.tag}
				_, had := ref[o.rank]
				switch o.kind {
				case 0:
					if got := tr.Add(key); got != !had {
						return fmt.Errorf("step %d: Add(%v) = %v", k+1, key, got)
					}
					if !had {
						ref[o.rank] = key
					}
				case 1:
					if got := tr.Replace(key); got != !had {
						return fmt.Errorf("step %d: Replace(%v) = %v", k+1, key, got)
					}
					ref[o.rank] = key
				case 2:
					if got := tr.Remove(key); got != had {
						return fmt.Errorf("step %d: Remove(%v) = %v", k+1, key, got)
					}
					delete(ref, o.rank)
				case 3:
					tr.Clear()
					clear(ref)
				case 4:
					orig := tr
					tr = tr.Clone()
					tr.Add(govcKey{ranks - 1, 1})
					tr.Remove(govcKey{0, 0})
					if err := govcCompare(orig, ref, ranks); err != nil {
						return fmt.Errorf("step %d: original after changes to its clone: %v", k+1, err)
					}
					if _, has := ref[ranks-1]; !has {
						ref[ranks-1] = govcKey{ranks - 1, 1}
					}
					delete(ref, 0)
				}
				if err := govcCompare(tr, ref, ranks); err != nil {
					return fmt.Errorf("after step %d: %v", k+1, err)
				}
			}
			return nil
		}
		rec = func(depth int) {
			if depth == 0 {
				return
			}
			for _, o := range alphabet {
				hist = append(hist, o)
				cases++
				if err := run(); err != nil {
					t.Fatalf("beta %d, history %v (kind 0 Add 1 Replace 2 Remove 3 Clear 4 Clone): %v", beta, hist, err)
				}
				rec(depth - 1)
				hist = hist[:len(hist)-1]
			}
		}
		rec(bound)
		// longer monotone and zig-zag histories force scapegoat rebuilds and whole-tree rebuilds
		for _, pattern := range [][]int{{0, 1, 2, 3, 4, 5, 6, 7, 8, 9, 10, 11, 12, 13, 14, 15}, {15, 14, 13, 12, 11, 10, 9, 8, 7, 6, 5, 4, 3, 2, 1, 0}, {0, 15, 1, 14, 2, 13, 3, 12, 4, 11, 5, 10, 6, 9, 7, 8}} {
			tr := New(beta, govcCmp)
			ref := govcRef{}
			for _, r := range pattern {
				tr.Add(govcKey{r, 0})
				ref[r] = govcKey{r, 0}
				if err := govcCompare(tr, ref, 16); err != nil {
					t.Fatalf("beta %d, pattern %v, after adding %d: %v", beta, pattern, r, err)
				}
				cases++
			}
			for _, r := range pattern {
				tr.Remove(govcKey{r, 1})
				delete(ref, r)
				if err := govcCompare(tr, ref, 16); err != nil {
					t.Fatalf("beta %d, pattern %v, after removing %d: %v", beta, pattern, r, err)
				}
				cases++
			}
		}
	}
	// New with every initial key list up to length 4 (unsorted, duplicated)
	var keys []govcKey
	var build func(depth int)
	build = func(depth int) {
		tr := New(250, govcCmp, keys...)
		ref := govcRef{}
		var got []govcKey
		tr.Inorder(func(k govcKey) bool { got = append(got, k); return true })
		for _, g := range got { // any one of the equivalent keys may be kept
			if !slices.Contains(keys, g) {
				t.Fatalf("New(%v) holds %v, which was not given", keys, g)
			}
			ref[g.rank] = g
		}
		for _, k := range keys {
			if _, ok := ref[k.rank]; !ok {
				t.Fatalf("New(%v) lost rank %d", keys, k.rank)
			}
		}
		if err := govcCompare(tr, ref, ranks); err != nil {
			t.Fatalf("New(%v): %v", keys, err)
		}
		cases++
		if depth == 0 {
			return
		}
		for r := 0; r < 3; r++ {
			for tag := 0; tag < 2; tag++ {
				keys = append(keys, govcKey{r, tag})
				build(depth - 1)
				keys = keys[:len(keys)-1]
			}
		}
	}
	build(4)
	fmt.Printf("GOVC-CASES=%d\n", cases)
}
