package slice

// Bounded stand-in for the optimality half of C12 (DESIGN.md §6 C12): the length of LIS/LNDS/LCS results equals an
// independent quadratic dynamic programme, exhaustively for every sequence over alphabets of 2 and 3 symbols up to
// length GOVC_BOUND (LCS: every pair up to GOVC_BOUND/2+1), natural and reversed comparison, plus seeded random larger
// inputs with many duplicates. That the result is an ordered subsequence of the untouched input is proved
// deductively (contracts on LNDSFunc, LISFunc, bisectRight); the checks here repeat it only as a cross-check.

import (
	"fmt"
	"math/rand"
	"os"
	"slices"
	"strconv"
	"testing"
)

func govcRefLIS(vs []int, cmp func(a, b int) int, strict bool) int {
	best := make([]int, len(vs))
	out := 0
	for i := range vs {
		best[i] = 1
		for j := 0; j < i; j++ {
			c := cmp(vs[j], vs[i])
			if (c < 0 || (!strict && c == 0)) && best[j]+1 > best[i] {
				best[i] = best[j] + 1
			}
		}
		out = max(out, best[i])
	}
	return out
}

func govcRefLCS(as, bs []int) int {
	tab := make([][]int, len(as)+1)
	for i := range tab {
		tab[i] = make([]int, len(bs)+1)
	}
	for i := 1; i <= len(as); i++ {
		for j := 1; j <= len(bs); j++ {
			if as[i-1] == bs[j-1] {
				tab[i][j] = tab[i-1][j-1] + 1
			} else {
				tab[i][j] = max(tab[i-1][j], tab[i][j-1])
			}
		}
	}
	return tab[len(as)][len(bs)]
}

// govcIsSubseq reports whether sub is a subsequence of vs.
func govcIsSubseq(sub, vs []int) bool {
	i := 0
	for _, v := range vs {
		if i < len(sub) && sub[i] == v {
			i++
		}
	}
	return i == len(sub)
}

func govcCheckLIS(t *testing.T, vs []int) {
	natural := func(a, b int) int { return a - b }
	reversed := func(a, b int) int { return b - a }
	for ci, cmp := range []func(a, b int) int{natural, reversed} {
		for _, strict := range []bool{false, true} {
			in := slices.Clone(vs)
			var got []int
			if strict {
				got = LISFunc(in, cmp)
			} else {
				got = LNDSFunc(in, cmp)
			}
			if !slices.Equal(in, vs) {
				t.Fatalf("strict=%v cmp#%d input %v modified to %v", strict, ci, vs, in)
			}
			if !govcIsSubseq(got, vs) {
				t.Fatalf("strict=%v cmp#%d input %v: %v is not a subsequence", strict, ci, vs, got)
			}
			for k := 1; k < len(got); k++ {
				c := cmp(got[k-1], got[k])
				if c > 0 || (strict && c == 0) {
					t.Fatalf("strict=%v cmp#%d input %v: %v is not ordered", strict, ci, vs, got)
				}
			}
			if want := govcRefLIS(vs, cmp, strict); len(got) != want {
				t.Fatalf("strict=%v cmp#%d input %v: got %v, length %d, optimum %d", strict, ci, vs, got, len(got), want)
			}
		}
	}
	// the Ordered wrappers agree with the natural order
	if a, b := LIS(slices.Clone(vs)), LISFunc(vs, natural); !slices.Equal(a, b) {
		t.Fatalf("LIS(%v) = %v, LISFunc natural = %v", vs, a, b)
	}
	if a, b := LNDS(slices.Clone(vs)), LNDSFunc(vs, natural); !slices.Equal(a, b) {
		t.Fatalf("LNDS(%v) = %v, LNDSFunc natural = %v", vs, a, b)
	}
}

func govcCheckLCS(t *testing.T, as, bs []int) {
	a2, b2 := slices.Clone(as), slices.Clone(bs)
	got := LCS(a2, b2)
	if !slices.Equal(a2, as) || !slices.Equal(b2, bs) {
		t.Fatalf("LCS(%v, %v) modified an input", as, bs)
	}
	if !govcIsSubseq(got, as) || !govcIsSubseq(got, bs) {
		t.Fatalf("LCS(%v, %v) = %v is not a common subsequence", as, bs, got)
	}
	if want := govcRefLCS(as, bs); len(got) != want {
		t.Fatalf("LCS(%v, %v) = %v, length %d, optimum %d", as, bs, got, len(got), want)
	}
	gf := LCSFunc(a2, b2, func(x, y int) bool { return x == y })
	if !slices.Equal(gf, got) {
		t.Fatalf("LCSFunc(%v, %v) = %v, LCS = %v", as, bs, gf, got)
	}
}

func govcAllSeqs(alpha, n int, f func([]int)) {
	vs := make([]int, n)
	var rec func(k int)
	rec = func(k int) {
		if k == n {
			f(vs)
			return
		}
		for a := 0; a < alpha; a++ {
			vs[k] = a
			rec(k + 1)
		}
	}
	rec(0)
}

func TestGovcBoundedLIS(t *testing.T) {
	bound, _ := strconv.Atoi(os.Getenv("GOVC_BOUND"))
	if bound == 0 {
		bound = 8
	}
	seed, _ := strconv.ParseInt(os.Getenv("GOVC_SEED"), 10, 64)
	cases := 0
	for n := 0; n <= bound; n++ {
		for _, alpha := range []int{2, 3} {
			if alpha == 3 && n > bound-2 {
				continue
			}
			govcAllSeqs(alpha, n, func(vs []int) { govcCheckLIS(t, vs); cases++ })
		}
	}
	half := bound/2 + 1
	for n := 0; n <= half; n++ {
		for m := 0; m <= half; m++ {
			for _, alpha := range []int{2, 3} {
				if alpha == 3 && n+m > half+2 {
					continue
				}
				govcAllSeqs(alpha, n, func(as []int) {
					as = slices.Clone(as)
					govcAllSeqs(alpha, m, func(bs []int) { govcCheckLCS(t, as, bs); cases++ })
				})
			}
		}
	}
	rng := rand.New(rand.NewSource(seed + 12))
	for round := 0; round < 40*bound; round++ {
		n := rng.Intn(60) + 1
		alpha := rng.Intn(6) + 1
		vs := make([]int, n)
		for i := range vs {
			vs[i] = rng.Intn(alpha)
		}
		govcCheckLIS(t, vs)
		bs := make([]int, rng.Intn(60))
		for i := range bs {
			bs[i] = rng.Intn(alpha)
		}
		govcCheckLCS(t, vs, bs)
		cases += 2
	}
	fmt.Printf("GOVC-CASES=%d\n", cases)
}
