package mapset

// Bounded companion of the C18 proofs (DESIGN.md §0.2): every history of up to GOVC_BOUND operations over the values
// 0..2 (Add, AddAll, Remove, RemoveAll, Pop, Clear, starting from a nil set and from New()) is run on the real Set and
// on a reference set; after every operation membership and Len agree, and Intersects, IsSubset, Equals, HasAll,
// HasAny, Intersect, Clone, Slice and Append give the set-theoretic answers against every operand over the same
// values, the nil and the empty set included. Nothing here is counted as proved; a failure is a concrete history.

import (
	"fmt"
	"os"
	"sort"
	"strconv"
	"testing"
)

func govcRefOf(bits int) map[int]bool {
	m := map[int]bool{}
	for v := 0; v < 3; v++ {
		if bits&(1<<v) != 0 {
			m[v] = true
		}
	}
	return m
}

func govcSetOf(bits int, nilIfEmpty bool) Set[int] {
	if bits == 0 && nilIfEmpty {
		return nil
	}
	s := New[int]()
	for v := 0; v < 3; v++ {
		if bits&(1<<v) != 0 {
			s.Add(v)
		}
	}
	return s
}

func TestGovcBoundedMapset(t *testing.T) {
	bound, _ := strconv.Atoi(os.Getenv("GOVC_BOUND"))
	if bound == 0 {
		bound = 4
	}
	cases := 0
	defer func() { fmt.Printf("GOVC-CASES=%d\n", cases) }()
	// ops: 0..2 Add(v), 3..5 Remove(v), 6..13 AddAll(operand bits), 14..21 RemoveAll(operand bits), 22 Pop, 23 Clear,
	// 24 Add(0, 1), 25 Remove(1, 2)
	const nops = 26
	var hist []int
	observe := func(s Set[int], ref map[int]bool, where string) {
		if s.Len() != len(ref) || s.IsEmpty() != (len(ref) == 0) {
			t.Fatalf("%s: Len %d IsEmpty %v, reference has %d", where, s.Len(), s.IsEmpty(), len(ref))
		}
		for v := 0; v < 4; v++ {
			if s.Has(v) != ref[v] {
				t.Fatalf("%s: Has(%d) = %v, reference %v", where, v, s.Has(v), ref[v])
			}
		}
		for bits := 0; bits < 8; bits++ {
			for _, asNil := range []bool{false, true} {
				o, oref := govcSetOf(bits, asNil), govcRefOf(bits)
				inter, sub, sup := false, true, true
				for v := range ref {
					if oref[v] {
						inter = true
					} else {
						sub = false
					}
				}
				for v := range oref {
					if !ref[v] {
						sup = false
					}
				}
				if s.Intersects(o) != inter || o.Intersects(s) != inter {
					t.Fatalf("%s: Intersects(%v) = %v / %v, want %v", where, o, s.Intersects(o), o.Intersects(s), inter)
				}
				if s.IsSubset(o) != sub || o.IsSubset(s) != sup {
					t.Fatalf("%s: IsSubset with %v = %v / %v, want %v / %v", where, o, s.IsSubset(o), o.IsSubset(s), sub, sup)
				}
				if s.Equals(o) != (sub && sup) || o.Equals(s) != (sub && sup) {
					t.Fatalf("%s: Equals(%v) = %v, want %v", where, o, s.Equals(o), sub && sup)
				}
				var elems []int
				for v := range oref {
					elems = append(elems, v)
				}
				if twice := append(append([]int(nil), elems...), elems...); s.HasAll(twice...) != sup || s.HasAny(twice...) != inter {
					t.Fatalf("%s: HasAll(%v) = %v want %v, HasAny = %v want %v (repeated arguments)", where, twice, s.HasAll(twice...), sup, s.HasAny(twice...), inter)
				}
				if s.HasAll(elems...) != sup || s.HasAny(elems...) != inter {
					t.Fatalf("%s: HasAll(%v) = %v want %v, HasAny = %v want %v", where, elems, s.HasAll(elems...), sup, s.HasAny(elems...), inter)
				}
				is := Intersect(s, o)
				if is == nil {
					t.Fatalf("%s: Intersect(%v) is nil", where, o)
				}
				n := 0
				for v := range ref {
					if oref[v] {
						n++
						if !is.Has(v) {
							t.Fatalf("%s: Intersect(%v) lacks %d", where, o, v)
						}
					}
				}
				if is.Len() != n {
					t.Fatalf("%s: Intersect(%v) = %v has %d members, want %d", where, o, is, is.Len(), n)
				}
				is.Add(7) // must not alias an argument
				if s.Has(7) || o.Has(7) {
					t.Fatalf("%s: Intersect(%v) aliases an argument", where, o)
				}
			}
		}
		// Keys and Values: non-nil, the right members, no aliasing of the argument
		km, vm := map[int]struct{}{}, map[string]int{}
		for v := range ref {
			km[v] = struct{}{}
			vm[fmt.Sprint("k", v)] = v
			vm[fmt.Sprint("j", v)] = v
		}
		for _, nilArg := range []bool{false, true} {
			if nilArg && len(ref) > 0 {
				continue
			}
			if nilArg {
				km, vm = nil, nil
			}
			ks, vs := Keys(km), Values(vm)
			if ks == nil || vs == nil || !ks.Equals(s) || !vs.Equals(s) {
				t.Fatalf("%s: Keys = %v, Values = %v, want non-nil sets equal to %v", where, ks, vs, s)
			}
			ks.Add(8)
			if _, aliased := km[8]; aliased {
				t.Fatalf("%s: Keys aliases its argument", where)
			}
		}
		c := s.Clone()
		if c == nil || !c.Equals(s) {
			t.Fatalf("%s: Clone = %v", where, c)
		}
		c.Add(9)
		if s.Has(9) {
			t.Fatalf("%s: Clone aliases the set", where)
		}
		sl := s.Slice()
		ap := s.Append([]int{-1})
		sort.Ints(sl)
		var want []int
		for v := 0; v < 4; v++ {
			if ref[v] {
				want = append(want, v)
			}
		}
		if fmt.Sprint(sl) != fmt.Sprint(want) && !(len(sl) == 0 && len(want) == 0) {
			t.Fatalf("%s: Slice = %v, want %v", where, sl, want)
		}
		if len(ap) != len(want)+1 || ap[0] != -1 {
			t.Fatalf("%s: Append = %v", where, ap)
		}
		rest := append([]int(nil), ap[1:]...)
		sort.Ints(rest)
		if fmt.Sprint(rest) != fmt.Sprint(want) && !(len(rest) == 0 && len(want) == 0) {
			t.Fatalf("%s: Append = %v, want -1 then %v", where, ap, want)
		}
	}
	replay := func(startNil bool) {
		cases++
		var s Set[int]
		if !startNil {
			s = New[int]()
		}
		ref := map[int]bool{}
		for step, op := range hist {
			where := fmt.Sprintf("history %v (nil start %v) step %d", hist, startNil, step)
			switch {
			case op < 3:
				s.Add(op)
				ref[op] = true
			case op < 6:
				s.Remove(op - 3)
				delete(ref, op-3)
			case op < 14:
				o := govcSetOf(op-6, op%2 == 0)
				s.AddAll(o)
				for v := range govcRefOf(op - 6) {
					ref[v] = true
				}
				if o != nil {
					o.Add(5) // the operand stays the caller's: changing it must not change s
					if s.Has(5) {
						t.Fatalf("%s: AddAll made the receiver share storage with its argument", where)
					}
				}
			case op < 22:
				s.RemoveAll(govcSetOf(op-14, op%2 == 0))
				for v := range govcRefOf(op - 14) {
					delete(ref, v)
				}
			case op == 22:
				before := len(ref)
				v := s.Pop()
				if before == 0 {
					if v != 0 {
						t.Fatalf("%s: Pop on an empty set returned %d", where, v)
					}
				} else {
					if !ref[v] {
						t.Fatalf("%s: Pop returned %d, which was not a member", where, v)
					}
					delete(ref, v)
				}
			case op == 23:
				s.Clear()
				ref = map[int]bool{}
			case op == 24:
				s.Add(0, 1)
				ref[0], ref[1] = true, true
			case op == 25:
				s.Remove(1, 2)
				delete(ref, 1)
				delete(ref, 2)
			}
			observe(s, ref, where)
		}
	}
	var run func()
	run = func() {
		replay(true)
		replay(false)
		if len(hist) == bound {
			return
		}
		for op := 0; op < nops; op++ {
			hist = append(hist, op)
			run()
			hist = hist[:len(hist)-1]
		}
	}
	run()
}
