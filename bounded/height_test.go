package stree

// Bounded stand-in for the first clause of C02 (DESIGN.md §0.2/§0.3): for balance factors 0..999 and operation
// histories (sorted, reversed, zig-zag and seeded random insertions, interleaved with removals and Clear), after every
// single operation no key lies deeper below the root (edges) than log base 2000/(1000+beta) of P, plus one, P being the
// largest Len since the tree was created, cleared or last empty; for beta 990, 998 and 999 additionally a sorted run of
// 30000 insertions (bound independent). The second clause of C02 (New builds a tree of minimum
// height) is proved deductively (stree.extract); it is re-checked here on the side.

import (
	"fmt"
	"math"
	"math/rand"
	"os"
	"strconv"
	"testing"
)

func govcDepth[T any](n *node[T]) int {
	if n == nil {
		return -1
	}
	return 1 + max(govcDepth(n.left), govcDepth(n.right))
}

type govcHeightRun struct {
	t    *Tree[int]
	beta int
	peak int
	ops  int
}

func (r *govcHeightRun) check(what string) error {
	r.ops++
	n := r.t.Len()
	if n == 0 {
		r.peak = 0
		if r.t.root != nil {
			return fmt.Errorf("beta %d, %s: empty tree has a root", r.beta, what)
		}
		return nil
	}
	r.peak = max(r.peak, n)
	depth := govcDepth(r.t.root)
	base := 2000.0 / float64(1000+r.beta)
	bound := math.Log(float64(r.peak))/math.Log(base) + 1
	if float64(depth) > bound+1e-9 {
		return fmt.Errorf("beta %d, after %s (operation %d): a key lies %d below the root, Len %d, peak %d, bound log_%.4f(%d)+1 = %.3f", r.beta, what, r.ops, depth, n, r.peak, base, r.peak, bound)
	}
	return nil
}

func TestGovcBoundedHeight(t *testing.T) {
	bound, _ := strconv.Atoi(os.Getenv("GOVC_BOUND"))
	if bound == 0 {
		bound = 200
	}
	seed, _ := strconv.ParseInt(os.Getenv("GOVC_SEED"), 10, 64)
	cmp := func(a, b int) int { return a - b }
	cases := 0
	for _, beta := range []int{0, 1, 50, 250, 300, 500, 750, 900, 999} {
		patterns := map[string]func(i, n int) int{
			"ascending":  func(i, n int) int { return i },
			"descending": func(i, n int) int { return n - i },
			"zigzag": func(i, n int) int {
				if i%2 == 0 {
					return i / 2
				}
				return n - i/2
			},
			"inward": func(i, n int) int {
				if i%2 == 0 {
					return n - i/2
				}
				return i / 2
			},
		}
		for name, f := range patterns {
			r := &govcHeightRun{t: New[int](beta, cmp), beta: beta}
			for i := 0; i < bound; i++ {
				r.t.Add(f(i, bound))
				cases++
				if err := r.check(fmt.Sprintf("%s Add #%d", name, i)); err != nil {
					t.Fatal(err)
				}
			}
			// drain from one end, then refill: exercises the delete-side rebuild and the peak reset
			for i := 0; i < bound; i++ {
				r.t.Remove(f(i, bound))
				cases++
				if err := r.check(fmt.Sprintf("%s Remove #%d", name, i)); err != nil {
					t.Fatal(err)
				}
			}
			for i := 0; i < bound/2; i++ {
				r.t.Add(f(i, bound))
				cases++
				if err := r.check(fmt.Sprintf("%s re-Add #%d", name, i)); err != nil {
					t.Fatal(err)
				}
			}
		}
		rng := rand.New(rand.NewSource(seed + int64(beta)))
		r := &govcHeightRun{t: New[int](beta, cmp), beta: beta}
		for i := 0; i < 6*bound; i++ {
			k := rng.Intn(2 * bound)
			var what string
			switch x := rng.Intn(10); {
			case x < 6:
				r.t.Add(k)
				what = fmt.Sprintf("random Add(%d)", k)
			case x < 9:
				r.t.Remove(k)
				what = fmt.Sprintf("random Remove(%d)", k)
			default:
				if rng.Intn(20) == 0 {
					r.t.Clear()
					what = "Clear"
				} else {
					r.t.Replace(k)
					what = fmt.Sprintf("random Replace(%d)", k)
				}
			}
			cases++
			if err := r.check(what); err != nil {
				t.Fatal(err)
			}
		}
	}
	// balance factors next to 1000 only show a missing rebalance on very long sorted runs (the bound is about
	// 2000 ln P there): 30000 ascending keys, depth measured every 500 insertions (measuring costs O(n))
	for _, beta := range []int{999, 998, 990} {
		r := &govcHeightRun{t: New[int](beta, cmp), beta: beta}
		for i := 0; i < 30000; i++ {
			r.t.Add(i)
			if i%500 == 499 {
				cases++
				if err := r.check(fmt.Sprintf("long ascending Add #%d", i)); err != nil {
					t.Fatal(err)
				}
			} else {
				r.peak = max(r.peak, r.t.Len())
			}
		}
	}
	// New: minimum height floor(log2 n)
	for n := 1; n <= 2*bound; n++ {
		keys := make([]int, n)
		for i := range keys {
			keys[i] = (i*7919)%(4*bound)*4*bound + i // distinct, unsorted
		}
		tr := New(250, cmp, keys...)
		cases++
		if got, want := govcDepth(tr.root), int(math.Floor(math.Log2(float64(n)))); tr.Len() != n || got != want {
			t.Fatalf("New with %d distinct keys: Len %d, height %d, want height floor(log2 n) = %d", n, tr.Len(), got, want)
		}
	}
	fmt.Printf("GOVC-CASES=%d\n", cases)
}
