package stree

// Bounded stand-in for the ordering half of C03 (DESIGN.md §0.2): on every search-tree shape of at most
// GOVC_BOUND nodes (the skewed ones included) and from every node of it: Cursor(key) is valid exactly for present
// keys and reports the key; Next/Prev move to exactly the next larger/smaller key and become invalid past either end,
// HasNext/HasPrev predict this; Left/Right/Up/Min/Max go where the structure says, everything reachable through Left is
// smaller and through Right larger; the cursor's Inorder lists exactly its subtree in ascending order; Clone moves
// independently; invalid and nil cursors are harmless no-ops. The structural half (paths stay on child links, exact end
// positions of every move) is proved deductively.

import (
	"fmt"
	"os"
	"slices"
	"strconv"
	"testing"
)

func govcIntShapes(n, lo int) []*node[int] {
	if n == 0 {
		return []*node[int]{nil}
	}
	var out []*node[int]
	for l := 0; l < n; l++ {
		for _, lt := range govcIntShapes(l, lo) {
			for _, rt := range govcIntShapes(n-1-l, lo+2*(l+1)) {
				out = append(out, &node[int]{X: lo + 2*l, left: lt, right: rt})
			}
		}
	}
	return out
}

func govcIntNodes(n *node[int], out *[]*node[int]) {
	if n != nil {
		govcIntNodes(n.left, out)
		*out = append(*out, n)
		govcIntNodes(n.right, out)
	}
}

func TestGovcBoundedCursor(t *testing.T) {
	bound, _ := strconv.Atoi(os.Getenv("GOVC_BOUND"))
	if bound == 0 {
		bound = 5
	}
	cmp := func(a, b int) int { return a - b }
	cases := 0
	for n := 0; n <= bound; n++ {
		for _, root := range govcIntShapes(n, 10) {
			tr := &Tree[int]{root: root, compare: cmp, size: n, max: n, limit: func(int) int { return 1 << 30 }}
			var ns []*node[int]
			govcIntNodes(root, &ns)
			keys := make([]int, len(ns))
			for i, x := range ns {
				keys[i] = x.X
			}
			// absent keys (odd numbers and both ends)
			for k := 9; k <= 10+2*n; k += 2 {
				if c := tr.Cursor(k); c != nil || c.Valid() || c.Key() != 0 || c.HasNext() || c.HasPrev() || c.HasLeft() || c.HasRight() || c.HasParent() {
					t.Fatalf("%d-node tree %v: Cursor(%d) for an absent key is not an invalid cursor", n, keys, k)
				}
				var nilc *Cursor[int]
				if nilc.Next() != nil || nilc.Prev() != nil || nilc.Left() != nil || nilc.Right() != nil || nilc.Up() != nil || nilc.Min() != nil || nilc.Max() != nil || nilc.Clone() != nil {
					t.Fatalf("nil cursor: a move did not return nil")
				}
				nilc.Inorder(func(int) bool { t.Fatalf("nil cursor: Inorder yields"); return false })
			}
			if n == 0 {
				if tr.Root() != nil {
					t.Fatalf("empty tree: Root is not nil")
				}
				continue
			}
			if r := tr.Root(); !r.Valid() || r.Key() != root.X || r.HasParent() {
				t.Fatalf("%d-node tree %v: Root", n, keys)
			}
			for i, x := range ns {
				cases++
				c := tr.Cursor(x.X)
				if !c.Valid() || c.Key() != x.X {
					t.Fatalf("tree %v: Cursor(%d) invalid or at %d", keys, x.X, c.Key())
				}
				// forward walk
				w := c.Clone()
				for j := i; j < len(keys); j++ {
					if !w.Valid() || w.Key() != keys[j] {
						t.Fatalf("tree %v: from %d, %d x Next: at %d (valid %v), want %d", keys, x.X, j-i, w.Key(), w.Valid(), keys[j])
					}
					if w.HasNext() != (j+1 < len(keys)) {
						t.Fatalf("tree %v: at %d HasNext = %v", keys, keys[j], w.HasNext())
					}
					w.Next()
				}
				if w.Valid() || w.Key() != 0 || w.Next().Valid() || w.Prev().Valid() {
					t.Fatalf("tree %v: from %d: still valid past the largest key", keys, x.X)
				}
				// backward walk
				w = c.Clone()
				for j := i; j >= 0; j-- {
					if !w.Valid() || w.Key() != keys[j] {
						t.Fatalf("tree %v: from %d, %d x Prev: at %d (valid %v), want %d", keys, x.X, i-j, w.Key(), w.Valid(), keys[j])
					}
					if w.HasPrev() != (j > 0) {
						t.Fatalf("tree %v: at %d HasPrev = %v", keys, keys[j], w.HasPrev())
					}
					w.Prev()
				}
				if w.Valid() {
					t.Fatalf("tree %v: from %d: still valid before the smallest key", keys, x.X)
				}
				if c.Key() != x.X {
					t.Fatalf("tree %v: moving a clone moved the original", keys)
				}
				// structure
				var sub []*node[int]
				govcIntNodes(x, &sub)
				var got []int
				c.Inorder(func(k int) bool { got = append(got, k); return true })
				want := make([]int, len(sub))
				for k, y := range sub {
					want[k] = y.X
				}
				if !slices.Equal(got, want) {
					t.Fatalf("tree %v: Inorder at %d yields %v, subtree is %v", keys, x.X, got, want)
				}
				if c.HasLeft() != (x.left != nil) || c.HasRight() != (x.right != nil) || c.HasParent() != (x != root) {
					t.Fatalf("tree %v: HasLeft/HasRight/HasParent at %d", keys, x.X)
				}
				if l := c.Clone().Left(); l.Valid() != (x.left != nil) || (x.left != nil && (l.Key() != x.left.X || l.Key() >= x.X)) {
					t.Fatalf("tree %v: Left at %d", keys, x.X)
				}
				if r := c.Clone().Right(); r.Valid() != (x.right != nil) || (x.right != nil && (r.Key() != x.right.X || r.Key() <= x.X)) {
					t.Fatalf("tree %v: Right at %d", keys, x.X)
				}
				if m := c.Clone().Min(); !m.Valid() || m.Key() != want[0] {
					t.Fatalf("tree %v: Min at %d is %d, want %d", keys, x.X, m.Key(), want[0])
				}
				if m := c.Clone().Max(); !m.Valid() || m.Key() != want[len(want)-1] {
					t.Fatalf("tree %v: Max at %d is %d, want %d", keys, x.X, m.Key(), want[len(want)-1])
				}
				if x.left != nil {
					if u := c.Clone().Left().Up(); !u.Valid() || u.Key() != x.X {
						t.Fatalf("tree %v: Left then Up at %d", keys, x.X)
					}
				}
				up := c.Clone().Up()
				if up.Valid() != (x != root) {
					t.Fatalf("tree %v: Up at %d: valid = %v", keys, x.X, up.Valid())
				}
				if up.Valid() {
					par := up.path[len(up.path)-1]
					if par.left != x && par.right != x {
						t.Fatalf("tree %v: Up at %d does not reach the parent", keys, x.X)
					}
				}
			}
		}
	}
	fmt.Printf("GOVC-CASES=%d\n", cases)
}
