package slice

// Bounded stand-in for C11 (DESIGN.md §0.2): for every pair of sequences over alphabets of 2 and 3 symbols up to
// length GOVC_BOUND (and seeded random longer pairs with long common runs): the assumed contract of LCSFunc (a common
// subsequence) and its optimal length against an independent dynamic programme; EditScript replays lhs into rhs with
// every edit's X and Y being the very spans at the current offsets; the number of emitted elements equals the LCS
// length (minimality); the script is canonical (no empty edit, a drop next to a copy is fused into one Replace,
// adjacent edits differ in kind) and empty exactly when lhs equals rhs. The deductive part proves the replay/span half
// for all inputs against the assumed LCS contract.

import (
	"fmt"
	"math/rand"
	"os"
	"slices"
	"strconv"
	"testing"
	"unsafe"
)

func govcEditRefLCS(as, bs []int) int {
	tab := make([][]int, len(as)+1)
	for i := range tab {
		tab[i] = make([]int, len(bs)+1)
	}
	for i := 1; i <= len(as); i++ {
		for j := 1; j <= len(bs); j++ {
			if as[i-1] == bs[j-1] {
				tab[i][j] = tab[i-1][j-1] + 1
			} else {
				tab[i][j] = max(tab[i-1][j], tab[i][j-1])
			}
		}
	}
	return tab[len(as)][len(bs)]
}

func govcSubseq(sub, vs []int) bool {
	i := 0
	for _, v := range vs {
		if i < len(sub) && sub[i] == v {
			i++
		}
	}
	return i == len(sub)
}

// govcSameSpan reports whether x is exactly s[a:b] (same backing array, same offset, same length).
func govcSameSpan(x, s []int, a, b int) bool {
	if len(x) != b-a {
		return false
	}
	if len(x) == 0 {
		return true
	}
	return unsafe.SliceData(x) == unsafe.SliceData(s[a:b])
}

func govcCheckScript(lhs, rhs []int) error {
	l2, r2 := slices.Clone(lhs), slices.Clone(rhs)
	lcs := LCS(l2, r2)
	if !govcSubseq(lcs, lhs) || !govcSubseq(lcs, rhs) {
		return fmt.Errorf("LCS = %v is not a common subsequence", lcs)
	}
	want := govcEditRefLCS(lhs, rhs)
	if len(lcs) != want {
		return fmt.Errorf("LCS = %v has length %d, optimum %d", lcs, len(lcs), want)
	}
	es := EditScript(l2, r2)
	if !slices.Equal(l2, lhs) || !slices.Equal(r2, rhs) {
		return fmt.Errorf("EditScript modified an input")
	}
	if (len(es) == 0) != slices.Equal(lhs, rhs) {
		return fmt.Errorf("script %v: empty = %v, inputs equal = %v", es, len(es) == 0, slices.Equal(lhs, rhs))
	}
	lp, rp, emitted := 0, 0, 0
	var out []int
	for k, e := range es {
		switch e.Op {
		case OpDrop:
			if len(e.X) == 0 || len(e.Y) != 0 || lp+len(e.X) > len(l2) || !govcSameSpan(e.X, l2, lp, lp+len(e.X)) {
				return fmt.Errorf("edit %d %v: not a non-empty span of lhs at offset %d", k, e, lp)
			}
			lp += len(e.X)
		case OpEmit:
			if len(e.X) == 0 || len(e.Y) != 0 || lp+len(e.X) > len(l2) || !govcSameSpan(e.X, l2, lp, lp+len(e.X)) {
				return fmt.Errorf("edit %d %v: not a non-empty span of lhs at offset %d", k, e, lp)
			}
			out = append(out, e.X...)
			lp += len(e.X)
			rp += len(e.X)
			emitted += len(e.X)
		case OpCopy:
			if len(e.Y) == 0 || len(e.X) != 0 || rp+len(e.Y) > len(r2) || !govcSameSpan(e.Y, r2, rp, rp+len(e.Y)) {
				return fmt.Errorf("edit %d %v: not a non-empty span of rhs at offset %d", k, e, rp)
			}
			out = append(out, e.Y...)
			rp += len(e.Y)
		case OpReplace:
			if len(e.X) == 0 || len(e.Y) == 0 || lp+len(e.X) > len(l2) || rp+len(e.Y) > len(r2) || !govcSameSpan(e.X, l2, lp, lp+len(e.X)) || !govcSameSpan(e.Y, r2, rp, rp+len(e.Y)) {
				return fmt.Errorf("edit %d %v: not non-empty spans at offsets %d, %d", k, e, lp, rp)
			}
			out = append(out, e.Y...)
			lp += len(e.X)
			rp += len(e.Y)
		default:
			return fmt.Errorf("edit %d: unknown op %q", k, e.Op)
		}
		if k > 0 {
			p := es[k-1].Op
			if p == e.Op {
				return fmt.Errorf("edits %d and %d have the same kind %q", k-1, k, e.Op)
			}
			if (p == OpDrop && e.Op == OpCopy) || (p == OpCopy && e.Op == OpDrop) {
				return fmt.Errorf("edits %d and %d: a drop next to a copy is not fused into a replace", k-1, k)
			}
		}
	}
	if len(es) > 0 {
		if lp != len(lhs) || rp != len(rhs) || !slices.Equal(out, rhs) {
			return fmt.Errorf("script %v consumes %d of %d and produces %v, want %v", es, lp, len(lhs), out, rhs)
		}
		if emitted != want {
			return fmt.Errorf("script %v keeps %d elements, the longest common subsequence has %d", es, emitted, want)
		}
	}
	return nil
}

func TestGovcBoundedEdit(t *testing.T) {
	bound, _ := strconv.Atoi(os.Getenv("GOVC_BOUND"))
	if bound == 0 {
		bound = 5
	}
	seed, _ := strconv.ParseInt(os.Getenv("GOVC_SEED"), 10, 64)
	cases := 0
	var gen func(alpha, n int, f func([]int))
	gen = func(alpha, n int, f func([]int)) {
		vs := make([]int, n)
		var rec func(k int)
		rec = func(k int) {
			if k == n {
				f(vs)
				return
			}
			for a := 0; a < alpha; a++ {
				vs[k] = a
				rec(k + 1)
			}
		}
		rec(0)
	}
	for _, alpha := range []int{2, 3} {
		lim := bound
		if alpha == 3 {
			lim = bound - 1
		}
		for n := 0; n <= lim; n++ {
			for m := 0; m <= lim; m++ {
				gen(alpha, n, func(as []int) {
					as = slices.Clone(as)
					gen(alpha, m, func(bs []int) {
						cases++
						if err := govcCheckScript(as, bs); err != nil {
							t.Fatalf("lhs %v, rhs %v: %v", as, bs, err)
						}
					})
				})
			}
		}
	}
	rng := rand.New(rand.NewSource(seed + 11))
	for round := 0; round < 60*bound; round++ {
		alpha := rng.Intn(4) + 1
		base := make([]int, rng.Intn(40))
		for i := range base {
			base[i] = rng.Intn(alpha)
		}
		mutate := func() []int {
			out := slices.Clone(base)
			for k := rng.Intn(6); k > 0 && len(out) > 0; k-- {
				p := rng.Intn(len(out))
				switch rng.Intn(3) {
				case 0:
					out = slices.Delete(out, p, p+1)
				case 1:
					out = slices.Insert(out, p, rng.Intn(alpha))
				default:
					out[p] = rng.Intn(alpha)
				}
			}
			return out
		}
		as, bs := mutate(), mutate()
		cases++
		if err := govcCheckScript(as, bs); err != nil {
			t.Fatalf("lhs %v, rhs %v: %v", as, bs, err)
		}
	}
	fmt.Printf("GOVC-CASES=%d\n", cases)
}
