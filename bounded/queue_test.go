package queue

// Bounded companion of the C07 proofs (DESIGN.md §0.2): every history of up to GOVC_BOUND operations (Add, Push, Pop,
// PopLast, Clear) from the zero value, New() and NewSize(n) for n = 0..3 is run on the real queue and on a reference
// slice; after every operation Len, IsEmpty, Front, Peek(n) for every n from -(len+1) to len, Each (also stopped
// early) and Slice must agree with the reference. The histories are long enough for the ring to wrap and for the
// buffer to be regrown several times. Nothing here is counted as proved; a failure is a concrete history that replays
// on the real code.

import (
	"fmt"
	"os"
	"strconv"
	"testing"
)

func TestGovcBoundedQueue(t *testing.T) {
	bound, _ := strconv.Atoi(os.Getenv("GOVC_BOUND"))
	if bound == 0 {
		bound = 7
	}
	cases := 0
	defer func() { fmt.Printf("GOVC-CASES=%d\n", cases) }()
	const nops = 5 // 0 Add, 1 Push, 2 Pop, 3 PopLast, 4 Clear
	var hist []int
	replay := func(start int) {
		cases++
		var q *Queue[int]
		switch start {
		case -2:
			q = new(Queue[int])
		case -1:
			q = New[int]()
		default:
			q = NewSize[int](start)
		}
		var ref []int
		next := 1
		observe := func(step int) {
			where := fmt.Sprintf("start %d history %v step %d", start, hist, step)
			if q.Len() != len(ref) || q.IsEmpty() != (len(ref) == 0) {
				t.Fatalf("%s: Len %d IsEmpty %v, reference %v", where, q.Len(), q.IsEmpty(), ref)
			}
			wantFront := 0
			if len(ref) > 0 {
				wantFront = ref[0]
			}
			if q.Front() != wantFront {
				t.Fatalf("%s: Front %d, reference %v", where, q.Front(), ref)
			}
			for n := -(len(ref) + 1); n <= len(ref); n++ {
				i := n
				if i < 0 {
					i += len(ref)
				}
				want, wantOK := 0, i >= 0 && i < len(ref)
				if wantOK {
					want = ref[i]
				}
				if got, ok := q.Peek(n); got != want || ok != wantOK {
					t.Fatalf("%s: Peek(%d) = %d, %v; reference %v", where, n, got, ok, ref)
				}
			}
			var seen []int
			q.Each(func(v int) bool { seen = append(seen, v); return true })
			if fmt.Sprint(seen) != fmt.Sprint(ref) && !(len(seen) == 0 && len(ref) == 0) {
				t.Fatalf("%s: Each yields %v, reference %v", where, seen, ref)
			}
			if len(ref) > 1 {
				n := 0
				q.Each(func(int) bool { n++; return n < 2 })
				if n != 2 {
					t.Fatalf("%s: Each called its argument %d times after it returned false on the second call", where, n)
				}
			}
			sl := q.Slice()
			if len(sl) != len(ref) || (len(ref) > 0 && fmt.Sprint(sl) != fmt.Sprint(ref)) {
				t.Fatalf("%s: Slice %v, reference %v", where, sl, ref)
			}
		}
		observe(-1)
		for step, op := range hist {
			switch op {
			case 0:
				q.Add(next)
				ref = append(ref, next)
				next++
			case 1:
				q.Push(next)
				ref = append([]int{next}, ref...)
				next++
			case 2:
				v, ok := q.Pop()
				if ok != (len(ref) > 0) || (ok && v != ref[0]) || (!ok && v != 0) {
					t.Fatalf("start %d history %v step %d: Pop = %d, %v; reference %v", start, hist, step, v, ok, ref)
				}
				if ok {
					ref = ref[1:]
				}
			case 3:
				v, ok := q.PopLast()
				if ok != (len(ref) > 0) || (ok && v != ref[len(ref)-1]) || (!ok && v != 0) {
					t.Fatalf("start %d history %v step %d: PopLast = %d, %v; reference %v", start, hist, step, v, ok, ref)
				}
				if ok {
					ref = ref[:len(ref)-1]
				}
			case 4:
				q.Clear()
				ref = nil
			}
			observe(step)
		}
	}
	var run func()
	run = func() {
		if len(hist) == bound {
			for start := -2; start <= 3; start++ {
				replay(start)
			}
			return
		}
		for op := 0; op < nops; op++ {
			hist = append(hist, op)
			run()
			hist = hist[:len(hist)-1]
		}
	}
	run()
	// a long history that wraps and regrows many times
	hist = nil
	for i := 0; i < 200; i++ {
		hist = append(hist, []int{0, 1, 0, 2, 0, 1, 3, 0, 0, 2}[i%10])
	}
	replay(-1)
	replay(2)
}
