package ring

// Bounded stand-in for the ring part of C10 (DESIGN.md §0.2, §6 C10): every history of at most GOVC_BOUND
// operations (New, Of, Join of every ordered pair of live elements, Pop of every element) over at most 6 elements, run
// on the real code and compared after every step with a reference that keeps the cycles as plain lists, rearranged
// exactly as the documentation of Join and Pop describes. After every step every element's Next/Prev/Len/At/Peek/Each
// must agree with its cycle in the reference (nothing lost, nothing duplicated, Next and Prev mutually inverse).

import (
	"fmt"
	"os"
	"slices"
	"strconv"
	"testing"
)

type govcRings struct {
	nodes  []*Ring[int] // element k carries Value k
	cycles [][]int      // the reference: each cycle as a list of element numbers
}

func (w *govcRings) cycleOf(x int) (ci, pos int) {
	for ci, c := range w.cycles {
		if p := slices.Index(c, x); p >= 0 {
			return ci, p
		}
	}
	panic("element in no cycle")
}

func govcRotate(c []int, p int) []int { return append(slices.Clone(c[p:]), c[:p]...) }

func (w *govcRings) addRing(r *Ring[int], n int) error {
	// r is a freshly built ring of n elements whose values have been set to consecutive numbers
	var cyc []int
	cur := r
	for k := 0; k < n; k++ {
		if cur == nil {
			return fmt.Errorf("new ring of %d: nil after %d steps", n, k)
		}
		cur.Value = len(w.nodes)
		cyc = append(cyc, len(w.nodes))
		w.nodes = append(w.nodes, cur)
		cur = cur.Next()
	}
	if n > 0 && cur != r {
		return fmt.Errorf("new ring of %d does not close after %d steps", n, n)
	}
	if n > 0 {
		w.cycles = append(w.cycles, cyc)
	}
	return nil
}

func (w *govcRings) join(a, b int) error {
	got := w.nodes[a].Join(w.nodes[b])
	ca, pa := w.cycleOf(a)
	cb, pb := w.cycleOf(b)
	want := -1
	if ca != cb {
		r := govcRotate(w.cycles[ca], pa) // [r1 ... rn]
		s := govcRotate(w.cycles[cb], pb) // [s1 ... sm]
		merged := append([]int{r[0]}, s...)
		merged = append(merged, r[1:]...)
		want = merged[(1+len(s))%len(merged)] // r2, or r1 when n == 1
		lo, hi := min(ca, cb), max(ca, cb)
		w.cycles = slices.Delete(w.cycles, hi, hi+1)
		w.cycles = slices.Delete(w.cycles, lo, lo+1)
		w.cycles = append(w.cycles, merged)
	} else {
		r := govcRotate(w.cycles[ca], pa) // [r1 r2 ... ri s1 ... rn]
		i := slices.Index(r, b)           // position of s1
		if i >= 2 {
			out := slices.Clone(r[1:i])
			keep := append([]int{r[0]}, r[i:]...)
			want = out[0]
			w.cycles[ca] = keep
			w.cycles = append(w.cycles, out)
		}
	}
	if want < 0 {
		if got != nil {
			return fmt.Errorf("Join(%d,%d) returned element %d, reference nil", a, b, got.Value)
		}
	} else if got != w.nodes[want] {
		return fmt.Errorf("Join(%d,%d) returned %v, reference element %d", a, b, got, want)
	}
	return nil
}

func (w *govcRings) pop(a int) error {
	if got := w.nodes[a].Pop(); got != w.nodes[a] {
		return fmt.Errorf("Pop(%d) did not return its receiver", a)
	}
	ca, pa := w.cycleOf(a)
	if len(w.cycles[ca]) > 1 {
		w.cycles[ca] = slices.Delete(slices.Clone(w.cycles[ca]), pa, pa+1)
		w.cycles = append(w.cycles, []int{a})
	}
	return nil
}

func (w *govcRings) compare() error {
	seen := 0
	for _, c := range w.cycles {
		n := len(c)
		seen += n
		for p, x := range c {
			r := w.nodes[x]
			if r.Value != x {
				return fmt.Errorf("element %d carries value %d", x, r.Value)
			}
			if nx := w.nodes[c[(p+1)%n]]; r.Next() != nx || nx.Prev() != r {
				return fmt.Errorf("element %d in cycle %v: Next/Prev disagree with the reference", x, c)
			}
			if l := r.Len(); l != n {
				return fmt.Errorf("element %d in cycle %v: Len = %d", x, c, l)
			}
			var each []int
			r.Each(func(v int) bool { each = append(each, v); return true })
			if !slices.Equal(each, govcRotate(c, p)) {
				return fmt.Errorf("element %d in cycle %v: Each yields %v", x, c, each)
			}
			cnt := 0
			r.Each(func(int) bool { cnt++; return false })
			if cnt != 1 {
				return fmt.Errorf("Each did not stop when asked")
			}
			for k := -n - 1; k <= n+1; k++ {
				at := r.At(k)
				v, ok := r.Peek(k)
				if k <= -n || k >= n {
					if at != nil || ok || v != 0 {
						return fmt.Errorf("element %d in cycle %v: At(%d) = %v, Peek = %v, %v; want nothing", x, c, k, at, v, ok)
					}
					continue
				}
				wantX := c[((p+k)%n+n)%n]
				if at != w.nodes[wantX] || !ok || v != wantX {
					return fmt.Errorf("element %d in cycle %v: At(%d) = %v, Peek = %v, %v; reference element %d", x, c, k, at, v, ok, wantX)
				}
			}
		}
	}
	if seen != len(w.nodes) {
		return fmt.Errorf("reference lost elements: %d of %d", seen, len(w.nodes))
	}
	return nil
}

func TestGovcBoundedRing(t *testing.T) {
	bound, _ := strconv.Atoi(os.Getenv("GOVC_BOUND"))
	if bound == 0 {
		bound = 3
	}
	const maxNodes = 6
	cases := 0
	// an operation is encoded as {kind, a, b}
	type op struct{ kind, a, b int }
	var hist []op
	run := func() (w *govcRings, err error) {
		w = &govcRings{}
		for k, o := range hist {
			switch o.kind {
			case 0: // New(a)
				r := New[int](o.a)
				if o.a <= 0 && r != nil {
					return w, fmt.Errorf("step %d: New(%d) is not nil", k+1, o.a)
				}
				err = w.addRing(r, max(o.a, 0))
			case 1: // Of(a values)
				vs := make([]int, o.a)
				for i := range vs {
					vs[i] = 100 + i
				}
				r := Of(vs...)
				cur := r
				for i := range vs {
					if cur.Value != vs[i] {
						return w, fmt.Errorf("step %d: Of(%v): element %d holds %d", k+1, vs, i, cur.Value)
					}
					cur = cur.Next()
				}
				if (o.a == 0) != r.IsEmpty() {
					return w, fmt.Errorf("step %d: Of(%v).IsEmpty() = %v", k+1, vs, r.IsEmpty())
				}
				err = w.addRing(r, o.a)
			case 2:
				err = w.join(o.a, o.b)
			case 3:
				err = w.pop(o.a)
			}
			if err == nil {
				err = w.compare()
			}
			if err != nil {
				return w, fmt.Errorf("step %d %v: %v", k+1, o, err)
			}
		}
		return w, nil
	}
	var rec func(depth int)
	rec = func(depth int) {
		w, err := run()
		cases++
		if err != nil {
			t.Fatalf("history %v (kind 0=New(a) 1=Of(a values) 2=Join(a,b) 3=Pop(a)): %v", hist, err)
		}
		if depth == 0 {
			return
		}
		var next []op
		for n := -1; n <= 3; n++ {
			if len(w.nodes)+max(n, 0) <= maxNodes {
				next = append(next, op{0, n, 0})
				if n >= 0 {
					next = append(next, op{1, n, 0})
				}
			}
		}
		for a := range w.nodes {
			next = append(next, op{3, a, 0})
			for b := range w.nodes {
				next = append(next, op{2, a, b})
			}
		}
		for _, o := range next {
			hist = append(hist, o)
			rec(depth - 1)
			hist = hist[:len(hist)-1]
		}
	}
	rec(bound)
	var nilRing *Ring[int]
	if nilRing.Len() != 0 || !nilRing.IsEmpty() || nilRing.At(0) != nil || nilRing.Pop() != nil {
		t.Fatalf("nil ring: Len/IsEmpty/At/Pop")
	}
	if _, ok := nilRing.Peek(0); ok {
		t.Fatalf("nil ring: Peek(0) reports a value")
	}
	fmt.Printf("GOVC-CASES=%d\n", cases)
}
