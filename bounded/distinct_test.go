package distinct

// Bounded stand-in for the part of C19 the contracts do not reach (DESIGN.md §0.2): the constructor. NewCounter seeds
// its generator from crypto/rand through a [32]byte array, a type outside the verifier's subset, so it is not under
// contract; the proofs of Add, Count, Len and Reset assume the invariant a constructor has to establish. This test
// checks that NewCounter establishes it (capacity as given, probability 1, empty buffer, a generator) and then
// observes, for every buffer size from 2 to GOVC_BOUND and streams that repeat each value 1..3 times in interleaved
// order, what the property states about the exact regime: while fewer distinct values than the buffer size have been
// added, Len and Count equal the number of distinct values after every Add; Count is always Len times a power of two
// whose exponent (read from the probability) never decreases until Reset; Reset restores the exact regime.
// The bound on Len is deliberately not checked here: it fails on the pinned tree when a halving pass removes nothing
// (known finding F8, decided by the deductive check with its region).

import (
	"fmt"
	"math"
	"math/bits"
	"os"
	"strconv"
	"testing"
)

func govcExponent(p uint64) int { return bits.LeadingZeros64(p) }

func govcCheckCounter(t *testing.T, c *Counter[int], size, lastK int) int {
	t.Helper()
	k := govcExponent(c.p)
	if c.p != math.MaxUint64>>uint(k) && !(k == 64 && c.p == 0) {
		t.Fatalf("size %d: probability %#x is not MaxUint64 >> k", size, c.p)
	}
	if k < lastK {
		t.Fatalf("size %d: exponent decreased from %d to %d without Reset", size, lastK, k)
	}
	if k < 64 {
		if want := uint64(c.Len()) << uint(k); c.Count() != want {
			t.Fatalf("size %d: Count() = %d, want Len %d times 2^%d = %d", size, c.Count(), c.Len(), k, want)
		}
	}
	return k
}

func TestGovcBoundedDistinct(t *testing.T) {
	bound, _ := strconv.Atoi(os.Getenv("GOVC_BOUND"))
	if bound == 0 {
		bound = 12
	}
	cases := 0
	defer func() { fmt.Printf("GOVC-CASES=%d\n", cases) }()
	for size := 2; size <= bound; size++ {
		c := NewCounter[int](size)
		if c == nil || c.buf == nil || c.rng == nil || c.cap != size || c.p != math.MaxUint64 || c.Len() != 0 || c.Count() != 0 {
			t.Fatalf("NewCounter(%d) does not start in the exact regime with the given capacity: %+v", size, c)
		}
		for round := 0; round < 3; round++ {
			for reps := 1; reps <= 3; reps++ {
				// exact regime: size-1 distinct values, each repeated reps times, interleaved
				k := 0
				seen := map[int]bool{}
				for r := 0; r < reps; r++ {
					for v := 0; v < size-1; v++ {
						c.Add(v*7 + 1)
						cases++
						seen[v*7+1] = true
						if c.Len() != len(seen) || c.Count() != uint64(len(seen)) {
							t.Fatalf("size %d, %d distinct values added (repeat %d): Len %d Count %d, want both %d", size, len(seen), r, c.Len(), c.Count(), len(seen))
						}
						k = govcCheckCounter(t, c, size, k)
						if k != 0 {
							t.Fatalf("size %d: left the exact regime with %d distinct values", size, len(seen))
						}
					}
				}
				// far above the buffer size: only the shape of Count is checked
				for v := 0; v < 6*size; v++ {
					c.Add(1000 + v)
					c.Add(1000 + v/2)
					cases += 2
					k = govcCheckCounter(t, c, size, k)
				}
				c.Reset()
				if c.cap != size || c.p != math.MaxUint64 || c.Len() != 0 || c.Count() != 0 {
					t.Fatalf("size %d: Reset does not restore the exact regime: cap %d p %#x Len %d", size, c.cap, c.p, c.Len())
				}
			}
		}
	}
}
