package cache

// Bounded companion of the C08 proofs (DESIGN.md §0.2): every sequential history of up to GOVC_BOUND operations
// (Put, Get, Has, Remove on 4 keys, Clear) with variable entry sizes (0, 1, 2, 3 and one larger than the limit) is run
// on the real cache (LRU store, limit 4) and on a reference LRU cache written from the property text: answers of
// Put/Get/Has/Remove, Len and Size after every operation, and the eviction callback - fired exactly once with the
// departing key and value for every entry evicted, replaced, removed or cleared, the entries evicted by a Put in
// least-recently-used order. At most 4 entries are live, which keeps the store's heap within the indices where the
// known defect of heapq.pushUp (F1) cannot manifest. Nothing here is counted as proved; a failure is a concrete
// history that replays on the real code.

import (
	"fmt"
	"os"
	"sort"
	"strconv"
	"testing"
)

type govcEntry struct {
	k int
	v int64
}

func TestGovcBoundedCacheReference(t *testing.T) {
	bound, _ := strconv.Atoi(os.Getenv("GOVC_BOUND"))
	if bound == 0 {
		bound = 4
	}
	cases := 0
	defer func() { fmt.Printf("GOVC-CASES=%d\n", cases) }()
	const nkeys, limit = 4, 4
	sizes := []int64{1, 2, 0, 3, 1, 5, 2, 0, 1}
	sizeOf := func(v int64) int64 { return sizes[int(v)%len(sizes)] }
	// ops: 0..3 Put(k), 4..7 Get(k), 8..11 Has(k), 12..15 Remove(k), 16 Clear
	const nops = 17
	var hist []int
	replay := func() {
		cases++
		var fired []govcEntry
		c := New(limit, LRU[int, int64]().WithSize(sizeOf).OnEvict(func(k int, v int64) { fired = append(fired, govcEntry{k, v}) }))
		var ref []govcEntry // least recently used first
		var refSize int64
		find := func(k int) int {
			for i, e := range ref {
				if e.k == k {
					return i
				}
			}
			return -1
		}
		next := int64(0)
		for step, op := range hist {
			where := fmt.Sprintf("history %v step %d", hist, step)
			fired = fired[:0]
			var want []govcEntry
			ordered := true
			k := op % nkeys
			switch {
			case op < 4:
				v := next
				next++
				ok := c.Put(k, v)
				if sizeOf(v) > limit {
					if ok {
						t.Fatalf("%s: Put of a value of size %d was accepted with limit %d", where, sizeOf(v), limit)
					}
					break
				}
				if !ok {
					t.Fatalf("%s: Put of a value of size %d was refused with limit %d", where, sizeOf(v), limit)
				}
				if i := find(k); i >= 0 {
					want = append(want, ref[i])
					refSize -= sizeOf(ref[i].v)
					ref = append(ref[:i:i], ref[i+1:]...)
				}
				for refSize+sizeOf(v) > limit {
					want = append(want, ref[0])
					refSize -= sizeOf(ref[0].v)
					ref = ref[1:]
				}
				ref = append(ref, govcEntry{k, v})
				refSize += sizeOf(v)
			case op < 8:
				v, ok := c.Get(k)
				i := find(k)
				if ok != (i >= 0) || (ok && v != ref[i].v) || (!ok && v != 0) {
					t.Fatalf("%s: Get(%d) = %d, %v; reference %v", where, k, v, ok, ref)
				}
				if i >= 0 {
					e := ref[i]
					ref = append(append(ref[:i:i], ref[i+1:]...), e)
				}
			case op < 12:
				if ok := c.Has(k); ok != (find(k) >= 0) {
					t.Fatalf("%s: Has(%d) = %v; reference %v", where, k, ok, ref)
				}
			case op < 16:
				ok := c.Remove(k)
				i := find(k)
				if ok != (i >= 0) {
					t.Fatalf("%s: Remove(%d) = %v; reference %v", where, k, ok, ref)
				}
				if i >= 0 {
					want = append(want, ref[i])
					refSize -= sizeOf(ref[i].v)
					ref = append(ref[:i:i], ref[i+1:]...)
				}
			default:
				c.Clear()
				want, ref, refSize, ordered = append(want, ref...), nil, 0, false
			}
			got := append([]govcEntry(nil), fired...)
			if !ordered {
				less := func(s []govcEntry) func(i, j int) bool { return func(i, j int) bool { return s[i].v < s[j].v } }
				sort.Slice(got, less(got))
				sort.Slice(want, less(want))
			}
			if fmt.Sprint(got) != fmt.Sprint(want) && !(len(got) == 0 && len(want) == 0) {
				t.Fatalf("%s: the eviction callback received %v, the reference says %v", where, fired, want)
			}
			if c.Len() != len(ref) || c.Size() != refSize || c.Size() > limit {
				t.Fatalf("%s: Len %d Size %d; reference %v (size %d), limit %d", where, c.Len(), c.Size(), ref, refSize, limit)
			}
		}
	}
	var run func()
	run = func() {
		if len(hist) > 0 {
			replay()
		}
		if len(hist) == bound {
			return
		}
		for op := 0; op < nops; op++ {
			hist = append(hist, op)
			run()
			hist = hist[:len(hist)-1]
		}
	}
	run()
}
