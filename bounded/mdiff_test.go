package mdiff

// Bounded stand-in for C13 (DESIGN.md §0.2): for every pair of line sequences over 3 letters up to length GOVC_BOUND and
// every context size n in 0..GOVC_BOUND+1, after New, after AddContext(n) and after Unify: every chunk's edits consume
// exactly the lines [LStart,LEnd) of Left and produce exactly the lines [RStart,REnd) of Right (1-based, half-open), with
// at most n context lines before and after; after New and after Unify the chunks are ascending and disjoint (after
// Unify also not adjacent), so replacing each chunk's left range by its output turns Left into Right; Edits holds the
// full script and is not disturbed by AddContext or Unify.

import (
	"fmt"
	"os"
	"slices"
	"strconv"
	"testing"

	"github.com/creachadair/mds/slice"
)

// govcChunk checks one chunk against Left and Right; it returns the number of leading and trailing context lines.
func govcChunk(c *Chunk, left, right []string) (pre, post int, err error) {
	l, r := c.LStart-1, c.RStart-1
	if c.LStart < 1 || c.RStart < 1 || c.LEnd < c.LStart || c.REnd < c.RStart || c.LEnd-1 > len(left) || c.REnd-1 > len(right) {
		return 0, 0, fmt.Errorf("ranges L[%d,%d) R[%d,%d) outside the inputs", c.LStart, c.LEnd, c.RStart, c.REnd)
	}
	leading := true
	for k, e := range c.Edits {
		take := func(dst *int, src []string, want []string, what string) error {
			if *dst+len(want) > len(src) || !slices.Equal(src[*dst:*dst+len(want)], want) {
				return fmt.Errorf("edit %d %v: %s does not match the input at line %d", k, e, what, *dst+1)
			}
			*dst += len(want)
			return nil
		}
		switch e.Op {
		case slice.OpDrop:
			err = take(&l, left, e.X, "X")
		case slice.OpCopy:
			err = take(&r, right, e.Y, "Y")
		case slice.OpReplace:
			if err = take(&l, left, e.X, "X"); err == nil {
				err = take(&r, right, e.Y, "Y")
			}
		case slice.OpEmit:
			if err = take(&l, left, e.X, "X"); err == nil {
				err = take(&r, right, e.X, "X (as right lines)")
			}
			if leading {
				pre += len(e.X)
			}
			post += len(e.X)
		default:
			err = fmt.Errorf("edit %d: unknown op %q", k, e.Op)
		}
		if err != nil {
			return 0, 0, err
		}
		if e.Op != slice.OpEmit {
			leading = false
			post = 0
		}
	}
	if l != c.LEnd-1 || r != c.REnd-1 {
		return 0, 0, fmt.Errorf("edits end at L%d R%d, chunk says L[%d,%d) R[%d,%d)", l+1, r+1, c.LStart, c.LEnd, c.RStart, c.REnd)
	}
	return pre, post, nil
}

// govcApply replaces each chunk's left range by its output.
func govcApply(chunks []*Chunk, left []string, gap int) ([]string, error) {
	var out []string
	pos := 1
	for i, c := range chunks {
		if c.LStart < pos+gap && i > 0 || c.LStart < pos {
			return nil, fmt.Errorf("chunk %d starts at L%d, the previous one ends at L%d (want a gap of at least %d)", i, c.LStart, pos, gap)
		}
		out = append(out, left[pos-1:c.LStart-1]...)
		for _, e := range c.Edits {
			switch e.Op {
			case slice.OpEmit:
				out = append(out, e.X...)
			case slice.OpCopy, slice.OpReplace:
				out = append(out, e.Y...)
			}
		}
		pos = c.LEnd
	}
	return append(out, left[pos-1:]...), nil
}

func govcEditsEqual(a, b []Edit) bool {
	return slices.EqualFunc(a, b, func(x, y Edit) bool { return x.Op == y.Op && slices.Equal(x.X, y.X) && slices.Equal(x.Y, y.Y) })
}

func govcCheckDiff(left, right []string, n int) error {
	l2, r2 := slices.Clone(left), slices.Clone(right)
	d := New(l2, r2)
	script := slices.Clone(d.Edits)
	stage := func(name string, maxCtx int, ordered bool, gap int) error {
		if !slices.Equal(d.Left, left) || !slices.Equal(d.Right, right) {
			return fmt.Errorf("%s: Left/Right changed", name)
		}
		if !govcEditsEqual(d.Edits, script) {
			return fmt.Errorf("%s: Edits disturbed", name)
		}
		for i, c := range d.Chunks {
			pre, post, err := govcChunk(c, left, right)
			if err != nil {
				return fmt.Errorf("%s: chunk %d: %v", name, i, err)
			}
			if maxCtx >= 0 && (pre > maxCtx || post > maxCtx) {
				return fmt.Errorf("%s: chunk %d has %d leading and %d trailing context lines, n = %d", name, i, pre, post, maxCtx)
			}
			if len(c.Edits) == 0 {
				return fmt.Errorf("%s: chunk %d is empty", name, i)
			}
		}
		if ordered {
			got, err := govcApply(d.Chunks, left, gap)
			if err != nil {
				return fmt.Errorf("%s: %v", name, err)
			}
			if !slices.Equal(got, right) {
				return fmt.Errorf("%s: applying the chunks to Left gives %v", name, got)
			}
		}
		return nil
	}
	if err := stage("New", 0, true, 0); err != nil {
		return err
	}
	if len(d.Chunks) == 0 != slices.Equal(left, right) {
		return fmt.Errorf("New: %d chunks for equal=%v inputs", len(d.Chunks), slices.Equal(left, right))
	}
	d.AddContext(n)
	if err := stage("AddContext", n, false, 0); err != nil {
		return err
	}
	d.Unify()
	// after Unify a chunk may hold inner context of up to 2n lines, but leading and trailing context stay within n
	if err := stage("Unify", n, true, 1); err != nil {
		return err
	}
	return nil
}

func TestGovcBoundedMdiff(t *testing.T) {
	bound, _ := strconv.Atoi(os.Getenv("GOVC_BOUND"))
	if bound == 0 {
		bound = 4
	}
	cases := 0
	letters := []string{"a", "b", "c"}
	var gen func(n int, f func([]string))
	gen = func(n int, f func([]string)) {
		vs := make([]string, n)
		var rec func(k int)
		rec = func(k int) {
			if k == n {
				f(vs)
				return
			}
			for _, a := range letters {
				vs[k] = a
				rec(k + 1)
			}
		}
		rec(0)
	}
	for ln := 0; ln <= bound; ln++ {
		for rn := 0; rn <= bound; rn++ {
			gen(ln, func(left []string) {
				left = slices.Clone(left)
				gen(rn, func(right []string) {
					for n := 0; n <= bound+1; n++ {
						cases++
						if err := govcCheckDiff(left, right, n); err != nil {
							t.Fatalf("Left %v, Right %v, n = %d: %v", left, right, n, err)
						}
					}
				})
			})
		}
	}
	fmt.Printf("GOVC-CASES=%d\n", cases)
}
