package heapq

// Bounded stand-in for the last clause of C05 (DESIGN.md §0.2): heapq.Sort leaves its argument a sorted permutation of
// the input. Every sequence over GOVC_BOUND symbols up to length GOVC_BOUND+2 (so every pattern of duplicates and
// every initial order), under the natural order, the reversed order and a comparison that returns differences rather
// than -1/0/+1; seeded random longer inputs. The deductive part proves memory safety, termination and the frame of Sort
// against the contracts of NewWithData and Pop (themselves proved); that the loop leaves the array sorted needs "what
// Pop leaves in the heap was in it before" as a statement about elements, which the heap contracts state about
// multisets only.

import (
	"fmt"
	"math/rand"
	"os"
	"slices"
	"strconv"
	"testing"
)

func govcCheckSort(in []int, cmp func(a, b int) int, name string) error {
	vs := slices.Clone(in)
	Sort(cmp, vs)
	if len(vs) != len(in) {
		return fmt.Errorf("%s: length changed", name)
	}
	for i := 1; i < len(vs); i++ {
		if cmp(vs[i-1], vs[i]) > 0 {
			return fmt.Errorf("%s: Sort(%v) = %v: elements %d and %d are out of order", name, in, vs, i-1, i)
		}
	}
	a, b := slices.Clone(in), slices.Clone(vs)
	slices.Sort(a)
	slices.Sort(b)
	if !slices.Equal(a, b) {
		return fmt.Errorf("%s: Sort(%v) = %v is not a permutation of the input", name, in, vs)
	}
	return nil
}

func TestGovcBoundedHeapSort(t *testing.T) {
	bound, _ := strconv.Atoi(os.Getenv("GOVC_BOUND"))
	if bound == 0 {
		bound = 4
	}
	seed, _ := strconv.ParseInt(os.Getenv("GOVC_SEED"), 10, 64)
	cmps := []struct {
		name string
		f    func(a, b int) int
	}{
		{"natural", func(a, b int) int { return a - b }},
		{"reversed", func(a, b int) int { return b - a }},
		{"sign", func(a, b int) int {
			if a < b {
				return -1
			} else if a > b {
				return 1
			}
			return 0
		}},
	}
	cases := 0
	for n := 0; n <= bound+2; n++ {
		vs := make([]int, n)
		var rec func(k int)
		rec = func(k int) {
			if k == n {
				for _, c := range cmps {
					cases++
					if err := govcCheckSort(vs, c.f, c.name); err != nil {
						t.Fatal(err)
					}
				}
				return
			}
			for a := 0; a < bound; a++ {
				vs[k] = a * 3
				rec(k + 1)
			}
		}
		rec(0)
	}
	rng := rand.New(rand.NewSource(seed + 5))
	for round := 0; round < 200*bound; round++ {
		vs := make([]int, rng.Intn(70))
		for i := range vs {
			vs[i] = rng.Intn(20)
		}
		for _, c := range cmps {
			cases++
			if err := govcCheckSort(vs, c.f, c.name); err != nil {
				t.Fatal(err)
			}
		}
	}
	fmt.Printf("GOVC-CASES=%d\n", cases)
}
