package mlink

// Bounded stand-in for the mlink part of C10 (DESIGN.md §0.2, §6 C10): every history of at most GOVC_BOUND operations
// over a List edited through two cursors, and every history of at most 2*GOVC_BOUND operations on a Queue, run on the
// real code and compared after every step with a reference sequence. The reference keeps node identities, so that it
// knows which cursors an edit leaves stale: a stale cursor has to refuse every use by panicking with "invalid cursor",
// within a watchdog's time, and must leave the list as it was.

import (
	"fmt"
	"os"
	"slices"
	"strconv"
	"testing"
	"time"
)

type govcRefList struct {
	ids  []int // node identities, in list order
	vals map[int]int
	dead map[int]bool
	next int
}

type govcRefCursor struct{ pred int } // 0 = the sentinel

func (m *govcRefList) pos(c govcRefCursor) int {
	if c.pred == 0 {
		return 0
	}
	return slices.Index(m.ids, c.pred) + 1
}
func (m *govcRefList) valid(c govcRefCursor) bool { return c.pred == 0 || !m.dead[c.pred] }
func (m *govcRefList) values() []int {
	out := []int{}
	for _, id := range m.ids {
		out = append(out, m.vals[id])
	}
	return out
}
func (m *govcRefList) insert(p, v int) {
	m.next++
	m.vals[m.next] = v
	m.ids = slices.Insert(m.ids, p, m.next)
}

type govcListOp struct {
	name string
	// run applies the operation to the real list/cursors and to the reference; it reports a mismatch as an error.
	run func(w *govcListWorld) error
}

type govcListWorld struct {
	lst  *List[int]
	cur  [2]*Cursor[int]
	ref  *govcRefList
	rcur [2]*govcRefCursor
}

// govcCatch runs f with a watchdog and returns the recovered panic value (nil if none) and whether it finished.
func govcCatch(f func()) (p any, finished bool) {
	done := make(chan any, 1)
	go func() {
		defer func() { done <- recover() }()
		f()
	}()
	select {
	case p = <-done:
		return p, true
	case <-time.After(2 * time.Second):
		return nil, false
	}
}

func (w *govcListWorld) compare() error {
	want := w.ref.values()
	var got []int
	w.lst.Each(func(v int) bool { got = append(got, v); return true })
	if !slices.Equal(got, want) && !(len(got) == 0 && len(want) == 0) {
		return fmt.Errorf("Each yields %v, reference %v", got, want)
	}
	if n := w.lst.Len(); n != len(want) {
		return fmt.Errorf("Len = %d, reference %d", n, len(want))
	}
	if e := w.lst.IsEmpty(); e != (len(want) == 0) {
		return fmt.Errorf("IsEmpty = %v, reference has %d elements", e, len(want))
	}
	for n := 0; n <= len(want)+1; n++ {
		v, ok := w.lst.Peek(n)
		if ok != (n < len(want)) || (ok && v != want[n]) || (!ok && v != 0) {
			return fmt.Errorf("Peek(%d) = %v, %v; reference %v", n, v, ok, want)
		}
	}
	// early exit of Each
	if len(want) > 1 {
		cnt := 0
		w.lst.Each(func(int) bool { cnt++; return false })
		if cnt != 1 {
			return fmt.Errorf("Each did not stop when asked: %d calls", cnt)
		}
	}
	for i, c := range w.cur {
		if c == nil {
			continue
		}
		rc := *w.rcur[i]
		var gv int
		var ge bool
		p, fin := govcCatch(func() { gv, ge = c.Get(), c.AtEnd() })
		if !fin {
			return fmt.Errorf("cursor %d: Get/AtEnd hang", i)
		}
		if !w.ref.valid(rc) {
			if p != "invalid cursor" {
				return fmt.Errorf("stale cursor %d: Get/AtEnd returned (panic value %v), want panic \"invalid cursor\"", i, p)
			}
			continue
		}
		if p != nil {
			return fmt.Errorf("valid cursor %d: Get/AtEnd panicked: %v", i, p)
		}
		pos := w.ref.pos(rc)
		wantEnd := pos == len(want)
		wantV := 0
		if !wantEnd {
			wantV = want[pos]
		}
		if ge != wantEnd || gv != wantV {
			return fmt.Errorf("cursor %d at reference position %d of %v: Get = %d, AtEnd = %v", i, pos, want, gv, ge)
		}
	}
	return nil
}

// cursorOp wraps an operation through cursor i: on a stale cursor it must panic "invalid cursor" and change nothing.
func govcCursorOp(name string, i int, real func(c *Cursor[int]) any, model func(m *govcRefList, c *govcRefCursor) any, alwaysOK bool) govcListOp {
	return govcListOp{name: fmt.Sprintf("c%d.%s", i, name), run: func(w *govcListWorld) error {
		c := w.cur[i]
		if c == nil {
			return nil
		}
		rc := w.rcur[i]
		var got any
		p, fin := govcCatch(func() { got = real(c) })
		if !fin {
			return fmt.Errorf("does not return (stale=%v)", !w.ref.valid(*rc))
		}
		if !w.ref.valid(*rc) && !alwaysOK {
			if p != "invalid cursor" {
				return fmt.Errorf("on a stale cursor: panic value %v, want \"invalid cursor\"", p)
			}
			return nil
		}
		if p != nil {
			return fmt.Errorf("panicked: %v", p)
		}
		if want := model(w.ref, rc); want != got {
			return fmt.Errorf("returned %v, reference %v", got, want)
		}
		return nil
	}}
}

func govcListOps() []govcListOp {
	var ops []govcListOp
	for i := 0; i < 2; i++ {
		i := i
		set := func(w *govcListWorld, c *Cursor[int], pred int) { w.cur[i] = c; w.rcur[i] = &govcRefCursor{pred} }
		predAt := func(m *govcRefList, p int) int {
			if p > len(m.ids) {
				p = len(m.ids)
			}
			if p == 0 {
				return 0
			}
			return m.ids[p-1]
		}
		for n := 0; n <= 2; n++ {
			n := n
			ops = append(ops, govcListOp{fmt.Sprintf("c%d=At(%d)", i, n), func(w *govcListWorld) error { set(w, w.lst.At(n), predAt(w.ref, n)); return nil }})
		}
		ops = append(ops,
			govcListOp{fmt.Sprintf("c%d=Last", i), func(w *govcListWorld) error {
				set(w, w.lst.Last(), predAt(w.ref, max(len(w.ref.ids)-1, 0)))
				return nil
			}},
			govcListOp{fmt.Sprintf("c%d=End", i), func(w *govcListWorld) error { set(w, w.lst.End(), predAt(w.ref, len(w.ref.ids))); return nil }},
			govcListOp{fmt.Sprintf("c%d=Find(7)", i), func(w *govcListWorld) error {
				p := slices.Index(w.ref.values(), 7)
				if p < 0 {
					p = len(w.ref.ids)
				}
				set(w, w.lst.Find(func(v int) bool { return v == 7 }), predAt(w.ref, p))
				return nil
			}},
			govcCursorOp("Next", i, func(c *Cursor[int]) any { return c.Next() }, func(m *govcRefList, c *govcRefCursor) any {
				p := m.pos(*c)
				if p == len(m.ids) {
					return false
				}
				c.pred = m.ids[p]
				return p+1 < len(m.ids)
			}, false),
			govcCursorOp("Push(7)", i, func(c *Cursor[int]) any { c.Push(7); return nil }, func(m *govcRefList, c *govcRefCursor) any {
				m.insert(m.pos(*c), 7)
				return nil
			}, false),
			govcCursorOp("Add(8,9)", i, func(c *Cursor[int]) any { c.Add(8, 9); return nil }, func(m *govcRefList, c *govcRefCursor) any {
				p := m.pos(*c)
				m.insert(p, 8)
				m.insert(p+1, 9)
				c.pred = m.ids[p+1]
				return nil
			}, false),
			govcCursorOp("Add()", i, func(c *Cursor[int]) any { c.Add(); return nil }, func(m *govcRefList, c *govcRefCursor) any { return nil }, true),
			govcCursorOp("Set(5)", i, func(c *Cursor[int]) any { c.Set(5); return nil }, func(m *govcRefList, c *govcRefCursor) any {
				p := m.pos(*c)
				if p == len(m.ids) {
					m.insert(p, 5)
				} else {
					m.vals[m.ids[p]] = 5
				}
				return nil
			}, false),
			govcCursorOp("Remove", i, func(c *Cursor[int]) any { return c.Remove() }, func(m *govcRefList, c *govcRefCursor) any {
				p := m.pos(*c)
				if p == len(m.ids) {
					return 0
				}
				id := m.ids[p]
				m.dead[id] = true
				m.ids = slices.Delete(m.ids, p, p+1)
				return m.vals[id]
			}, false),
			govcCursorOp("Truncate", i, func(c *Cursor[int]) any { c.Truncate(); return nil }, func(m *govcRefList, c *govcRefCursor) any {
				p := m.pos(*c)
				for _, id := range m.ids[p:] {
					m.dead[id] = true
				}
				m.ids = m.ids[:p]
				return nil
			}, false),
		)
	}
	ops = append(ops, govcListOp{"Clear", func(w *govcListWorld) error {
		w.lst.Clear()
		for _, id := range w.ref.ids {
			w.ref.dead[id] = true
		}
		w.ref.ids = nil
		return nil
	}})
	return ops
}

func govcNewListWorld(initial int) *govcListWorld {
	w := &govcListWorld{lst: NewList[int](), ref: &govcRefList{vals: map[int]int{}, dead: map[int]bool{}}}
	c := w.lst.End()
	for v := 1; v <= initial; v++ {
		c.Add(v)
		w.ref.insert(len(w.ref.ids), v)
	}
	return w
}

func TestGovcBoundedMlink(t *testing.T) {
	bound, _ := strconv.Atoi(os.Getenv("GOVC_BOUND"))
	if bound == 0 {
		bound = 3
	}
	ops := govcListOps()
	cases := 0
	var hist []int
	var rec func(depth int)
	replay := func(initial int) error {
		w := govcNewListWorld(initial)
		for k, o := range hist {
			if err := ops[o].run(w); err != nil {
				return fmt.Errorf("step %d (%s): %v", k+1, ops[o].name, err)
			}
			if err := w.compare(); err != nil {
				return fmt.Errorf("after step %d (%s): %v", k+1, ops[o].name, err)
			}
		}
		return nil
	}
	describe := func() string {
		s := ""
		for _, o := range hist {
			s += " " + ops[o].name
		}
		return s
	}
	for _, initial := range []int{0, 1, 3} {
		rec = func(depth int) {
			if depth == 0 {
				return
			}
			for o := range ops {
				hist = append(hist, o)
				cases++
				if err := replay(initial); err != nil {
					t.Fatalf("list [1..%d], history%s: %v", initial, describe(), err)
				}
				rec(depth - 1)
				hist = hist[:len(hist)-1]
			}
		}
		rec(bound)
	}

	// Queue: every history of Add/Pop/Clear up to 2*bound steps
	var qh []int
	var qrec func(depth int)
	qrun := func() error {
		q := NewQueue[int]()
		var zq Queue[int] // the zero value is documented as ready for use
		var ref []int
		next := 1
		for k, o := range qh {
			for _, qq := range []*Queue[int]{q, &zq} {
				switch o {
				case 0:
					qq.Add(next)
				case 1:
					v, ok := qq.Pop()
					if ok != (len(ref) > 0) || (ok && v != ref[0]) || (!ok && v != 0) {
						return fmt.Errorf("step %d: Pop = %v, %v; reference %v", k+1, v, ok, ref)
					}
				case 2:
					qq.Clear()
				}
			}
			switch o {
			case 0:
				ref = append(ref, next)
				next++
			case 1:
				if len(ref) > 0 {
					ref = ref[1:]
				}
			case 2:
				ref = nil
			}
			for _, qq := range []*Queue[int]{q, &zq} {
				var got []int
				qq.Each(func(v int) bool { got = append(got, v); return true })
				if !slices.Equal(got, ref) && !(len(got) == 0 && len(ref) == 0) {
					return fmt.Errorf("step %d: Each yields %v, reference %v", k+1, got, ref)
				}
				if qq.Len() != len(ref) || qq.IsEmpty() != (len(ref) == 0) {
					return fmt.Errorf("step %d: Len = %d, IsEmpty = %v, reference %v", k+1, qq.Len(), qq.IsEmpty(), ref)
				}
				f := qq.Front()
				if (len(ref) > 0 && f != ref[0]) || (len(ref) == 0 && f != 0) {
					return fmt.Errorf("step %d: Front = %d, reference %v", k+1, f, ref)
				}
				for n := 0; n <= len(ref); n++ {
					v, ok := qq.Peek(n)
					if ok != (n < len(ref)) || (ok && v != ref[n]) {
						return fmt.Errorf("step %d: Peek(%d) = %v, %v; reference %v", k+1, n, v, ok, ref)
					}
				}
			}
		}
		return nil
	}
	qrec = func(depth int) {
		if depth == 0 {
			return
		}
		for o := 0; o < 3; o++ {
			qh = append(qh, o)
			cases++
			if err := qrun(); err != nil {
				t.Fatalf("queue history %v (0=Add 1=Pop 2=Clear): %v", qh, err)
			}
			qrec(depth - 1)
			qh = qh[:len(qh)-1]
		}
	}
	qrec(2 * bound)
	fmt.Printf("GOVC-CASES=%d\n", cases)
}
