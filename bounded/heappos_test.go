package heapq

// Bounded companion of the C06 proof (DESIGN.md §0.2): with an update function installed, every history of up to
// GOVC_BOUND operations (Add of a fresh element, Pop, Remove at the reported position of a held element, Set of a
// fresh batch, Reorder under the reversed comparison, Clear) is run on the real queue; after every operation the last
// position reported for each held element must be the offset at which Peek finds it, Add must return that offset, and
// Remove(p) must remove exactly the element whose reported position is p. Elements are pairwise distinct, as the
// property states. The order of the heap is not examined here (C05, known finding F1). Nothing here is counted as
// proved; a failure is a concrete history that replays on the real code.

import (
	"fmt"
	"os"
	"strconv"
	"testing"
)

func TestGovcBoundedHeapPositions(t *testing.T) {
	bound, _ := strconv.Atoi(os.Getenv("GOVC_BOUND"))
	if bound == 0 {
		bound = 6
	}
	cases := 0
	defer func() { fmt.Printf("GOVC-CASES=%d\n", cases) }()
	nat := func(a, b int) int { return a - b }
	rev := func(a, b int) int { return b - a }
	// ops: 0 Add small, 1 Add large, 2 Pop, 3 Remove(first held by value order), 4 Remove(last added), 5 Set(3 fresh),
	// 6 Reorder(reversed / natural alternately), 7 Clear
	const nops = 8
	hist := make([]int, 0, bound)
	var run func()
	replay := func() {
		cases++
		pos := map[int]int{}
		q := New(nat).Update(func(v, p int) { pos[v] = p })
		held := map[int]bool{}
		var order []int // insertion order of held elements
		next, low, reversed := 1000, 999, false
		check := func(step int, what string) {
			if q.Len() != len(held) {
				t.Fatalf("history %v step %d (%s): Len %d, %d elements held", hist, step, what, q.Len(), len(held))
			}
			for v := range held {
				got, ok := q.Peek(pos[v])
				if !ok || got != v {
					t.Fatalf("history %v step %d (%s): element %d was last reported at %d, Peek there gives %d, %v", hist, step, what, v, pos[v], got, ok)
				}
			}
		}
		drop := func(v int) {
			delete(held, v)
			for i, x := range order {
				if x == v {
					order = append(order[:i:i], order[i+1:]...)
					break
				}
			}
		}
		for step, op := range hist {
			switch op {
			case 0, 1:
				v := next
				next++
				if op == 0 {
					v = low
					low--
				}
				p := q.Add(v)
				held[v] = true
				order = append(order, v)
				if pos[v] != p {
					t.Fatalf("history %v step %d: Add(%d) returned %d, the update function was last told %d", hist, step, v, p, pos[v])
				}
			case 2:
				if v, ok := q.Pop(); ok {
					if !held[v] {
						t.Fatalf("history %v step %d: Pop returned %d, which is not held", hist, step, v)
					}
					drop(v)
				}
			case 3, 4:
				if len(order) == 0 {
					continue
				}
				v := order[0]
				if op == 4 {
					v = order[len(order)-1]
				}
				got, ok := q.Remove(pos[v])
				if !ok || got != v {
					t.Fatalf("history %v step %d: Remove(%d), the reported position of %d, removed %d, %v", hist, step, pos[v], v, got, ok)
				}
				drop(v)
			case 5:
				vs := []int{next + 1, next, next + 2}
				next += 3
				q.Set(vs)
				held, order = map[int]bool{}, nil
				for _, v := range vs {
					held[v] = true
					order = append(order, v)
				}
			case 6:
				reversed = !reversed
				if reversed {
					q.Reorder(rev)
				} else {
					q.Reorder(nat)
				}
			case 7:
				q.Clear()
				held, order = map[int]bool{}, nil
			}
			check(step, fmt.Sprint("op ", op))
		}
	}
	run = func() {
		replay()
		if len(hist) == bound {
			return
		}
		for op := 0; op < nops; op++ {
			hist = append(hist, op)
			run()
			hist = hist[:len(hist)-1]
		}
	}
	run()
}
