package shell

// Bounded companion of the C16 proofs (DESIGN.md §0.2): the contracts prove, call by call, that Scanner.Next refines the
// reference transition function and that the package's tables are that function. This test states the property the
// way its text does, on whole inputs: for every byte string over one byte per character class (ordinary, blank,
// newline, backslash, single quote, double quote) up to length GOVC_BOUND, the fields and the completeness flag of
// Split equal those of an independent tokenizer written directly from the quoting rules (no tables, no states
// shared with the package); a Scanner fed the same input one byte at a time, and in chunks of two and three bytes,
// yields the same tokens and the same Complete; after the end of input Next keeps returning false; and Rest, taken
// after any number of tokens, returns exactly the bytes not yet consumed. A failure here is a concrete input that
// replays on the real code; nothing here is counted as proved.

import (
	"fmt"
	"io"
	"os"
	"strconv"
	"testing"
)

// govcRefSplit tokenizes in by the quoting rules. ends[k] is the number of input bytes consumed when token k is
// complete (the delimiter that ended it included).
func govcRefSplit(in string) (fields []string, ends []int, complete bool) {
	const (
		plain = iota
		single
		double
	)
	mode := plain
	var tok []byte
	inWord, dangling := false, false
	i := 0
	for i < len(in) {
		c := in[i]
		switch mode {
		case plain:
			switch c {
			case ' ', '\t', '\n':
				i++
				if inWord {
					fields, ends = append(fields, string(tok)), append(ends, i)
					tok, inWord = tok[:0], false
				}
			case '\\':
				if i+1 == len(in) {
					dangling = true
					i++
					break
				}
				if in[i+1] != '\n' { // backslash-newline is a line continuation: both bytes vanish
					tok, inWord = append(tok, in[i+1]), true
				}
				i += 2
			case '\'':
				mode, inWord = single, true
				i++
			case '"':
				mode, inWord = double, true
				i++
			default:
				tok, inWord = append(tok, c), true
				i++
			}
		case single:
			if c == '\'' {
				mode = plain
			} else {
				tok = append(tok, c)
			}
			i++
		case double:
			switch c {
			case '"':
				mode = plain
				i++
			case '\\':
				if i+1 == len(in) {
					dangling = true
					i++
					break
				}
				switch n := in[i+1]; n {
				case '\n': // line continuation
				case '\\', '"':
					tok = append(tok, n)
				default: // the backslash stays
					tok = append(tok, '\\', n)
				}
				i += 2
			default:
				tok = append(tok, c)
				i++
			}
		}
	}
	if mode != plain || dangling {
		// an unfinished quotation or escape: what was collected is returned as a last, incomplete token
		return append(fields, string(tok)), append(ends, len(in)), false
	}
	if inWord {
		fields, ends = append(fields, string(tok)), append(ends, len(in))
	}
	return fields, ends, true
}

// govcChunkReader delivers its input n bytes at a time.
type govcChunkReader struct {
	s string
	n int
}

func (r *govcChunkReader) Read(p []byte) (int, error) {
	if len(r.s) == 0 {
		return 0, io.EOF
	}
	n := r.n
	if n > len(r.s) {
		n = len(r.s)
	}
	if n > len(p) {
		n = len(p)
	}
	copy(p, r.s[:n])
	r.s = r.s[n:]
	return n, nil
}

func govcSame(a, b []string) bool {
	if len(a) != len(b) {
		return false
	}
	for i := range a {
		if a[i] != b[i] {
			return false
		}
	}
	return true
}

func TestGovcBoundedScanner(t *testing.T) {
	bound, _ := strconv.Atoi(os.Getenv("GOVC_BOUND"))
	if bound == 0 {
		bound = 6
	}
	alpha := []byte{'a', ' ', '\n', '\\', '\'', '"'}
	cases := 0
	defer func() { fmt.Printf("GOVC-CASES=%d\n", cases) }()
	var run func(p []byte)
	check := func(in string) {
		cases++
		want, ends, wantOK := govcRefSplit(in)
		got, ok := Split(in)
		if !govcSame(got, want) || ok != wantOK {
			t.Fatalf("Split(%q) = %q, %v; the quoting rules give %q, %v", in, got, ok, want, wantOK)
		}
		for _, chunk := range []int{1, 2, 3} {
			sc := NewScanner(&govcChunkReader{s: in, n: chunk})
			var toks []string
			for sc.Next() {
				toks = append(toks, sc.Text())
			}
			if !govcSame(toks, want) || sc.Complete() != wantOK {
				t.Fatalf("input %q read %d byte(s) at a time: tokens %q complete %v, want %q %v", in, chunk, toks, sc.Complete(), want, wantOK)
			}
			if sc.Next() || sc.Next() {
				t.Fatalf("input %q: Next returned true after the end of input", in)
			}
		}
		// Rest after k tokens
		for k := 0; k <= len(want); k++ {
			sc := NewScanner(&govcChunkReader{s: in, n: 2})
			for j := 0; j < k; j++ {
				if !sc.Next() {
					t.Fatalf("input %q: token %d of %d missing", in, j, len(want))
				}
			}
			rest, err := io.ReadAll(sc.Rest())
			wantRest := in
			if k > 0 {
				wantRest = in[ends[k-1]:]
			}
			if err != nil || string(rest) != wantRest {
				t.Fatalf("input %q: Rest after %d token(s) = %q (%v), want %q", in, k, rest, err, wantRest)
			}
			if sc.Next() {
				t.Fatalf("input %q: Next returned true after Rest", in)
			}
		}
	}
	run = func(p []byte) {
		check(string(p))
		if len(p) == bound {
			return
		}
		for _, c := range alpha {
			run(append(p, c))
		}
	}
	run(nil)
	// tabs are blanks too, and bytes >= 0x80 are ordinary
	for _, in := range []string{"a\tb", "\t\ta\t", "a\\\tb", "'\t'", "\x80\xff b", "\"\x80\\\xff\""} {
		check(in)
	}
}
