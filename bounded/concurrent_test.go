package cache

// Bounded companion of the C09 proof (DESIGN.md §0.2). The deductive check proves that every method of Cache does all
// of its work in exactly one critical section of the cache's mutex; schedules are not explored by it. This test
// samples schedules: GOVC_BOUND rounds, each with 2-4 goroutines issuing Put/Get/Has/Remove/Len/Size/Clear on a small
// shared key space under varying GOMAXPROCS, and checks what can be checked without a history search: no panic and no
// deadlock; every observed Size is between 0 and the limit and every observed Len between 0 and the number of keys;
// every value that entered the cache (values are unique) is reported to the eviction callback exactly once by the
// time the cache has been cleared, and nothing is reported that never entered; after the goroutines have finished
// and Clear has run, Len and Size are 0. A failure is a sampled schedule, not a replayable input; passing it proves
// nothing (labelled bounded, never counted as proved).

import (
	"fmt"
	"math/rand"
	"os"
	"runtime"
	"strconv"
	"sync"
	"sync/atomic"
	"testing"
	"time"
)

func TestGovcBoundedConcurrent(t *testing.T) {
	rounds, _ := strconv.Atoi(os.Getenv("GOVC_BOUND"))
	if rounds == 0 {
		rounds = 300
	}
	seed, _ := strconv.ParseInt(os.Getenv("GOVC_SEED"), 10, 64)
	defer runtime.GOMAXPROCS(runtime.GOMAXPROCS(0))
	ops := 0
	defer func() { fmt.Printf("GOVC-CASES=%d\n", ops) }()
	const nkeys, limit = 4, 6
	for round := 0; round < rounds; round++ {
		runtime.GOMAXPROCS(1 + round%4)
		var mu sync.Mutex
		evicted := map[int64]int{} // value id -> times reported
		var nextID atomic.Int64
		entered := sync.Map{} // value id -> true for every Put that reported success
		c := New(limit, LRU[int, int64]().WithSize(func(v int64) int64 { return v % 3 }).OnEvict(func(k int, v int64) {
			mu.Lock()
			evicted[v]++
			mu.Unlock()
		}))
		workers := 2 + round%3
		var wg sync.WaitGroup
		fail := make(chan string, 16)
		report := func(s string) {
			select {
			case fail <- s:
			default:
			}
		}
		for w := 0; w < workers; w++ {
			wg.Add(1)
			go func(w int) {
				defer wg.Done()
				defer func() {
					if r := recover(); r != nil {
						report(fmt.Sprintf("panic in worker %d: %v", w, r))
					}
				}()
				rng := rand.New(rand.NewSource(seed*1000003 + int64(round)*97 + int64(w)))
				for i := 0; i < 60; i++ {
					k := rng.Intn(nkeys)
					switch rng.Intn(10) {
					case 0, 1, 2, 3:
						id := nextID.Add(1)
						if c.Put(k, id) {
							entered.Store(id, true)
						}
					case 4, 5:
						c.Get(k)
					case 6:
						c.Has(k)
					case 7:
						c.Remove(k)
					case 8:
						if n := c.Len(); n < 0 || n > nkeys {
							report(fmt.Sprintf("Len() = %d with %d keys", n, nkeys))
						}
						if s := c.Size(); s < 0 || s > limit {
							report(fmt.Sprintf("Size() = %d with limit %d", s, limit))
						}
					case 9:
						if rng.Intn(4) == 0 {
							c.Clear()
						}
					}
				}
			}(w)
		}
		done := make(chan struct{})
		go func() { wg.Wait(); close(done) }()
		select {
		case <-done:
		case <-time.After(20 * time.Second):
			t.Fatalf("round %d: the workers did not finish within 20 s (deadlock?)", round)
		}
		ops += workers * 60
		func() {
			defer func() {
				if r := recover(); r != nil {
					report(fmt.Sprintf("panic in the final Clear: %v", r))
				}
			}()
			c.Clear()
		}()
		select {
		case msg := <-fail:
			t.Fatalf("round %d (%d workers, GOMAXPROCS %d): %s", round, workers, 1+round%4, msg)
		default:
		}
		if c.Len() != 0 || c.Size() != 0 {
			t.Fatalf("round %d: after Clear Len %d Size %d", round, c.Len(), c.Size())
		}
		mu.Lock()
		entered.Range(func(id, _ any) bool {
			if evicted[id.(int64)] != 1 {
				t.Errorf("round %d: value %d entered the cache and was reported %d times", round, id, evicted[id.(int64)])
			}
			return true
		})
		for id, n := range evicted {
			if _, ok := entered.Load(id); !ok {
				t.Errorf("round %d: value %d was reported %d time(s) but never entered", round, id, n)
			}
		}
		mu.Unlock()
		if t.Failed() {
			return
		}
	}
}
