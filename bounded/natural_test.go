package mstr

// Bounded stand-in for the hyperproperties of CompareNatural (DESIGN.md §6 C20): over every string up to
// length GOVC_BOUND on the alphabet { '/', '0', '1', '9', ':', 'a' } (the digits and their ASCII neighbours):
// result in {-1,0,1}; antisymmetry; transitivity of <=; 0 exactly for strings equal up to leading zeros of
// digit runs; digit-only strings are ordered by numeric value.

import (
	"fmt"
	"os"
	"strconv"
	"strings"
	"testing"
)

func govcNormalize(s string) string {
	var b strings.Builder
	i := 0
	for i < len(s) {
		if s[i] >= '0' && s[i] <= '9' {
			j := i
			for j < len(s) && s[j] >= '0' && s[j] <= '9' {
				j++
			}
			run := strings.TrimLeft(s[i:j], "0")
			if run == "" {
				run = "0"
			}
			b.WriteString(run)
			i = j
		} else {
			b.WriteByte(s[i])
			i++
		}
	}
	return b.String()
}

func TestGovcBoundedNatural(t *testing.T) {
	bound, _ := strconv.Atoi(os.Getenv("GOVC_BOUND"))
	if bound == 0 {
		bound = 3
	}
	alpha := []byte{'/', '0', '1', '9', ':', 'a'}
	var all []string
	var gen func(prefix string, n int)
	gen = func(prefix string, n int) {
		all = append(all, prefix)
		if n == 0 {
			return
		}
		for _, c := range alpha {
			gen(prefix+string(c), n-1)
		}
	}
	gen("", bound)
	cases := 0
	le := make([][]bool, len(all))
	for i, a := range all {
		le[i] = make([]bool, len(all))
		for j, b := range all {
			c := CompareNatural(a, b)
			cases++
			if c < -1 || c > 1 {
				t.Fatalf("CompareNatural(%q, %q) = %d, not in {-1,0,1}", a, b, c)
			}
			if d := CompareNatural(b, a); d != -c {
				t.Fatalf("antisymmetry: CompareNatural(%q, %q) = %d but reversed = %d", a, b, c, d)
			}
			if (c == 0) != (govcNormalize(a) == govcNormalize(b)) {
				t.Fatalf("CompareNatural(%q, %q) = %d, but equality up to leading zeros is %v", a, b, c, govcNormalize(a) == govcNormalize(b))
			}
			le[i][j] = c <= 0
			if isAllDigits(a) && isAllDigits(b) {
				x, _ := strconv.Atoi(a)
				y, _ := strconv.Atoi(b)
				want := 0
				if x < y {
					want = -1
				} else if x > y {
					want = 1
				}
				if c != want {
					t.Fatalf("CompareNatural(%q, %q) = %d, numeric order says %d", a, b, c, want)
				}
			}
		}
	}
	// transitivity of <= (on a bounded prefix of the enumeration to keep the cube small)
	m := len(all)
	if m > 260 {
		m = 260
	}
	for i := 0; i < m; i++ {
		for j := 0; j < m; j++ {
			if !le[i][j] {
				continue
			}
			for k := 0; k < m; k++ {
				cases++
				if le[j][k] && !le[i][k] {
					t.Fatalf("transitivity: %q <= %q <= %q but not %q <= %q", all[i], all[j], all[k], all[i], all[k])
				}
			}
		}
	}
	fmt.Printf("GOVC-CASES=%d\n", cases)
}

func isAllDigits(s string) bool {
	if s == "" {
		return false
	}
	for i := 0; i < len(s); i++ {
		if s[i] < '0' || s[i] > '9' {
			return false
		}
	}
	return true
}
