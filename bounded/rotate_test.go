package slice

// Bounded stand-in for slice.Rotate's permutation postcondition (DESIGN.md §6 C07/C17): every length
// n <= GOVC_BOUND and every k in [-n, n] on the real function; out-of-range k must panic.

import (
	"fmt"
	"os"
	"strconv"
	"testing"
)

func TestGovcBoundedRotate(t *testing.T) {
	bound, _ := strconv.Atoi(os.Getenv("GOVC_BOUND"))
	if bound == 0 {
		bound = 8
	}
	cases := 0
	for n := 0; n <= bound; n++ {
		for k := -n - 2; k <= n+2; k++ {
			ss := make([]int, n, n+3)
			for i := range ss {
				ss[i] = i
			}
			guard := ss[:n+3]
			guard[n], guard[n+1], guard[n+2] = -1, -2, -3
			panicked := func() (p bool) {
				defer func() { p = recover() != nil }()
				Rotate(ss, k)
				return false
			}()
			cases++
			if k < -n || k > n {
				if !panicked {
					t.Fatalf("Rotate(len %d, %d) did not panic", n, k)
				}
				continue
			}
			if panicked {
				t.Fatalf("Rotate(len %d, %d) panicked", n, k)
			}
			for i := 0; i < n; i++ {
				j := ((i+k)%n + n) % n
				if ss[j] != i {
					t.Fatalf("Rotate(len %d, %d): element %d is at %v, want index %d", n, k, i, ss, j)
				}
			}
			if guard[n] != -1 || guard[n+1] != -2 || guard[n+2] != -3 {
				t.Fatalf("Rotate(len %d, %d) wrote beyond the slice", n, k)
			}
		}
	}
	// larger sizes, sampled offsets (a size-dependent code path is otherwise invisible to the small bound)
	for _, n := range []int{16, 31, 64, 100, 255, 256, 257, 300, 512, 1000, 4099} {
		for _, k := range []int{-n, -n + 1, -n / 2, -7, -1, 0, 1, 2, 5, n / 3, n / 2, n/2 + 1, n - 1, n} {
			ss := make([]int, n)
			for i := range ss {
				ss[i] = i
			}
			Rotate(ss, k)
			cases++
			for i := 0; i < n; i++ {
				j := ((i+k)%n + n) % n
				if ss[j] != i {
					t.Fatalf("Rotate(len %d, %d): element %d is not at index %d", n, k, i, j)
				}
			}
		}
	}
	fmt.Printf("GOVC-CASES=%d\n", cases)
}
