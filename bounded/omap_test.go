package omap

// Bounded stand-in for C04 (DESIGN.md §0.2): every history of at most GOVC_BOUND operations (Set with two values,
// Delete, Clear) over 4 keys, for the natural and a reversed comparator, compared after every step with a reference
// sorted map: Len, Get, GetOK, Keys, String, and the iterators from First, Last and Seek(k) walked with Next and Prev
// to both ends; a zero Map is an empty read-only map; copies of a Map share contents. The deductive part (Len, GetOK,
// Get, Set, Delete, Clear against stree's contracts) does not see values, iterators or NewFunc.

import (
	"fmt"
	"os"
	"slices"
	"strconv"
	"strings"
	"testing"
)

func govcCheckMap(m Map[int, string], ref map[int]string, less func(a, b int) bool, nkeys int) error {
	var keys []int
	for k := range ref {
		keys = append(keys, k)
	}
	slices.SortFunc(keys, func(a, b int) int {
		if less(a, b) {
			return -1
		} else if less(b, a) {
			return 1
		}
		return 0
	})
	if m.Len() != len(keys) {
		return fmt.Errorf("Len = %d, reference %v", m.Len(), keys)
	}
	if got := m.Keys(); !slices.Equal(got, keys) && !(len(got) == 0 && len(keys) == 0) {
		return fmt.Errorf("Keys = %v, reference %v", got, keys)
	}
	var parts []string
	for _, k := range keys {
		parts = append(parts, fmt.Sprintf("%v:%v", k, ref[k]))
	}
	if got, want := m.String(), "omap["+strings.Join(parts, " ")+"]"; got != want {
		return fmt.Errorf("String = %q, reference %q", got, want)
	}
	for k := -1; k <= nkeys; k++ {
		v, ok := m.GetOK(k)
		wv, wok := ref[k]
		if ok != wok || v != wv || m.Get(k) != wv {
			return fmt.Errorf("GetOK(%d) = %q, %v; Get = %q; reference %q, %v", k, v, ok, m.Get(k), wv, wok)
		}
		// Seek(k): first key >= k in map order, then forward to the end and backward to the start
		start := len(keys)
		for i, kk := range keys {
			if !less(kk, k) {
				start = i
				break
			}
		}
		it := m.Seek(k)
		for i := start; i < len(keys); i++ {
			if !it.IsValid() || it.Key() != keys[i] || it.Value() != ref[keys[i]] {
				return fmt.Errorf("Seek(%d) then %d x Next: not at reference key %d", k, i-start, keys[i])
			}
			it.Next()
		}
		if it.IsValid() {
			return fmt.Errorf("Seek(%d): iterator still valid past the last key (at %v)", k, it.Key())
		}
		if start < len(keys) {
			it = m.Seek(k)
			for i := start; i >= 0; i-- {
				if !it.IsValid() || it.Key() != keys[i] {
					return fmt.Errorf("Seek(%d) then %d x Prev: not at reference key %d", k, start-i, keys[i])
				}
				it.Prev()
			}
			if it.IsValid() {
				return fmt.Errorf("Seek(%d): iterator still valid before the first key", k)
			}
		}
	}
	f, l := m.First(), m.Last()
	if len(keys) == 0 {
		if f.IsValid() || l.IsValid() {
			return fmt.Errorf("First/Last valid on an empty map")
		}
	} else {
		if !f.IsValid() || f.Key() != keys[0] || !l.IsValid() || l.Key() != keys[len(keys)-1] {
			return fmt.Errorf("First/Last do not point at %d / %d", keys[0], keys[len(keys)-1])
		}
		for i := len(keys) - 1; i >= 0; i-- {
			if !l.IsValid() || l.Key() != keys[i] || l.Value() != ref[keys[i]] {
				return fmt.Errorf("Last then Prev: not at reference key %d", keys[i])
			}
			l.Prev()
		}
		if l.IsValid() {
			return fmt.Errorf("Last then Prev past the first key: still valid")
		}
	}
	return nil
}

func TestGovcBoundedOmap(t *testing.T) {
	bound, _ := strconv.Atoi(os.Getenv("GOVC_BOUND"))
	if bound == 0 {
		bound = 4
	}
	const nkeys = 4
	cases := 0
	type op struct {
		kind, key int
		val       string
	}
	var alphabet []op
	for k := 0; k < nkeys; k++ {
		alphabet = append(alphabet, op{0, k, "a"}, op{0, k, "b"}, op{1, k, ""})
	}
	alphabet = append(alphabet, op{2, 0, ""})
	for variant := 0; variant < 2; variant++ {
		less := func(a, b int) bool { return a < b }
		mk := func() Map[int, string] { return New[int, string]() }
		if variant == 1 {
			less = func(a, b int) bool { return a > b }
			mk = func() Map[int, string] { return NewFunc[int, string](func(a, b int) int { return b - a }) }
		}
		var hist []op
		var rec func(depth int)
		run := func() error {
			m := mk()
			alias := m // copies share contents
			ref := map[int]string{}
			for k, o := range hist {
				_, had := ref[o.key]
				switch o.kind {
				case 0:
					if got := m.Set(o.key, o.val); got != !had {
						return fmt.Errorf("step %d: Set(%d) = %v", k+1, o.key, got)
					}
					ref[o.key] = o.val
				case 1:
					if got := alias.Delete(o.key); got != had {
						return fmt.Errorf("step %d: Delete(%d) = %v", k+1, o.key, got)
					}
					delete(ref, o.key)
				case 2:
					m.Clear()
					clear(ref)
				}
				if err := govcCheckMap(alias, ref, less, nkeys); err != nil {
					return fmt.Errorf("after step %d: %v", k+1, err)
				}
			}
			return nil
		}
		rec = func(depth int) {
			if depth == 0 {
				return
			}
			for _, o := range alphabet {
				hist = append(hist, o)
				cases++
				if err := run(); err != nil {
					t.Fatalf("comparator %d, history %v (kind 0 Set 1 Delete 2 Clear): %v", variant, hist, err)
				}
				rec(depth - 1)
				hist = hist[:len(hist)-1]
			}
		}
		rec(bound)
	}
	var zero Map[int, string]
	if err := govcCheckMap(zero, map[int]string{}, func(a, b int) bool { return a < b }, nkeys); err != nil {
		t.Fatalf("zero Map: %v", err)
	}
	if zero.Delete(1) {
		t.Fatalf("zero Map: Delete reports true")
	}
	zero.Clear()
	fmt.Printf("GOVC-CASES=%d\n", cases)
}
