package shell

// Bounded stand-in for the composition of the per-function facts of C15/C16 (DESIGN.md §6 C15): the contracts
// prove that quote writes, for each string, bytes that the reference tokenizer reads as exactly that string, that
// Join separates them by a blank that ends a word, and that the scanner's tables are the reference tokenizer. That
// these facts compose to Split(Join(ss)) == ss for every list is an induction over the list which is not
// mechanised; this test checks the composed statement on every list of up to 3 strings of length <= GOVC_BOUND over
// an alphabet of special and ordinary bytes, and Split(Quote(s)) == [s] on every such string.

import (
	"fmt"
	"os"
	"strconv"
	"testing"
)

func TestGovcBoundedRoundTrip(t *testing.T) {
	bound, _ := strconv.Atoi(os.Getenv("GOVC_BOUND"))
	if bound == 0 {
		bound = 3
	}
	alpha := []byte{'a', ' ', '\t', '\n', '\\', '\'', '"', '$', ';', '*', 0x80}
	var words []string
	var gen func(p string, n int)
	gen = func(p string, n int) {
		words = append(words, p)
		if n == 0 {
			return
		}
		for _, c := range alpha {
			gen(p+string(c), n-1)
		}
	}
	gen("", bound)
	cases := 0
	eq := func(a, b []string) bool {
		if len(a) != len(b) {
			return false
		}
		for i := range a {
			if a[i] != b[i] {
				return false
			}
		}
		return true
	}
	for _, w := range words {
		got, ok := Split(Quote(w))
		cases++
		if !ok || !eq(got, []string{w}) {
			t.Fatalf("Split(Quote(%q)) = %q, %v", w, got, ok)
		}
	}
	// lists: all pairs, and triples over a thinned set
	step := 1
	if len(words) > 400 {
		step = len(words) / 400
	}
	var thin []string
	for i := 0; i < len(words); i += step {
		thin = append(thin, words[i])
	}
	for _, a := range thin {
		for _, b := range thin {
			ss := []string{a, b}
			got, ok := Split(Join(ss))
			cases++
			if !ok || !eq(got, ss) {
				t.Fatalf("Split(Join(%q)) = %q, %v", ss, got, ok)
			}
		}
	}
	small := thin
	if len(small) > 40 {
		small = small[:40]
	}
	for _, a := range small {
		for _, b := range small {
			for _, c := range small {
				ss := []string{a, b, c}
				got, ok := Split(Join(ss))
				cases++
				if !ok || !eq(got, ss) {
					t.Fatalf("Split(Join(%q)) = %q, %v", ss, got, ok)
				}
			}
		}
	}
	if got, ok := Split(Join(nil)); !ok || len(got) != 0 {
		t.Fatalf("Split(Join(nil)) = %q, %v", got, ok)
	}
	fmt.Printf("GOVC-CASES=%d\n", cases)
}
