package cache

// Bounded stand-in for "lruStore implements the contract of the Store interface" (DESIGN.md §6 C08): every
// history of Check/Access/Store/Remove/Evict up to length GOVC_BOUND over 4 keys is run on the real lruStore and
// on the reference model that the interface contract describes (key set, values, access stamps, clock; Evict
// returns the entry with the smallest stamp). At most 4 entries are live, which keeps the heap within the indices
// where the known defect of heapq.pushUp (F1) cannot manifest.

import (
	"fmt"
	"os"
	"strconv"
	"testing"
)

type govcRef struct {
	val   map[int]int
	stamp map[int]int
	clock int
}

func TestGovcBoundedLRU(t *testing.T) {
	bound, _ := strconv.Atoi(os.Getenv("GOVC_BOUND"))
	if bound == 0 {
		bound = 6
	}
	cases := 0
	const nkeys = 4
	// ops: 0..3 Check(k), 4..7 Access(k), 8..11 Store(k), 12..15 Remove(k), 16 Evict
	var run func(hist []int)
	replay := func(hist []int) {
		cfg := LRU[int, int]()
		s := cfg.store
		ref := govcRef{val: map[int]int{}, stamp: map[int]int{}}
		for step, op := range hist {
			k := op % nkeys
			switch {
			case op < 4:
				v, ok := s.Check(k)
				rv, rok := ref.val[k]
				if ok != rok || (ok && v != rv) {
					t.Fatalf("history %v step %d: Check(%d) = (%d,%v), reference (%d,%v)", hist, step, k, v, ok, rv, rok)
				}
			case op < 8:
				v, ok := s.Access(k)
				rv, rok := ref.val[k]
				if ok != rok || (ok && v != rv) {
					t.Fatalf("history %v step %d: Access(%d) = (%d,%v), reference (%d,%v)", hist, step, k, v, ok, rv, rok)
				}
				if rok {
					ref.clock++
					ref.stamp[k] = ref.clock
				}
			case op < 12:
				if _, present := ref.val[k]; present {
					continue // Store of a present key is excluded by the contract (it panics)
				}
				s.Store(k, 100*step+k)
				ref.clock++
				ref.val[k] = 100*step + k
				ref.stamp[k] = ref.clock
			case op < 16:
				s.Remove(k)
				delete(ref.val, k)
				delete(ref.stamp, k)
			default:
				if len(ref.val) == 0 {
					continue // Evict on an empty store is excluded by the contract (it panics)
				}
				ek, ev := s.Evict()
				best := -1
				for kk := range ref.val {
					if best < 0 || ref.stamp[kk] < ref.stamp[best] {
						best = kk
					}
				}
				if ek != best || ev != ref.val[best] {
					t.Fatalf("history %v step %d: Evict() = (%d,%d), reference evicts the least recently used (%d,%d)", hist, step, ek, ev, best, ref.val[best])
				}
				delete(ref.val, best)
				delete(ref.stamp, best)
			}
		}
		cases++
	}
	run = func(hist []int) {
		replay(hist)
		if len(hist) == bound {
			return
		}
		// prune: Check is a pure query, so only allow it as the last operation of a history
		for op := 0; op <= 16; op++ {
			if len(hist) > 0 && hist[len(hist)-1] < 4 {
				return
			}
			run(append(hist, op))
		}
	}
	run(nil)
	fmt.Printf("GOVC-CASES=%d\n", cases)
}
