; C18: mapset.Equals — loop exit: every member of s found in t, and len(s) == len(t)  ==> s == t  (expected: unsat)
(set-logic ALL)
(declare-sort T 0)
(declare-const s (Set T)) (declare-const t (Set T)) (declare-const seen (Set T))
(assert (= (set.card s) (set.card t)))
(assert (set.subset seen t))          ; loop invariant
(assert (= seen s))                   ; iteration finished: everything visited
(assert (not (= s t)))
(check-sat)
