; C17: slice.Batches loop — the only nonlinear argument in stage 1 (n*size with both symbolic).
; State: len = n*size + rem0 (div/mod), 1 <= n <= len, k batches emitted, i = next start, rem = remaining "+1" credits,
; ghost P = (n-k)*size.   Invariant: len - i == P + rem, 0 <= rem <= n-k, 0 <= k <= n, i <= len.
; 1 preserve   2 exit (i >= len) ==> k == n   3 in-bounds: end <= len      (expected: unsat x3)
(declare-const len Int) (declare-const n Int) (declare-const size Int) (declare-const rem0 Int)
(declare-const k Int) (declare-const i Int) (declare-const rem Int)
(assert (and (>= n 1) (<= n len)))
(assert (and (= len (+ (* n size) rem0)) (<= 0 rem0) (< rem0 n)))      ; size = len/n, rem0 = len%n
(define-fun Inv ((k Int) (i Int) (rem Int)) Bool
  (and (<= 0 k) (<= k n) (<= 0 rem) (<= rem (- n k)) (<= 0 i) (<= i len) (= (- len i) (+ (* (- n k) size) rem))))
(assert (Inv k i rem))
(define-fun end () Int (ite (> rem 0) (+ i size 1) (+ i size)))
(define-fun rem2 () Int (ite (> rem 0) (- rem 1) rem))
(push) (assert (< i len)) (assert (not (Inv (+ k 1) end rem2))) (check-sat) (pop)
(push) (assert (>= i len)) (assert (not (= k n))) (check-sat) (pop)
(push) (assert (< i len)) (assert (not (and (<= end len) (> end i)))) (check-sat) (pop)
