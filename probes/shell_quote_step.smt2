; C15: shell.quote, one loop iteration with the ghost POSIX tokenizer (DESIGN D.4) running over the bytes written.
; Ghost state (gm in {0=B,1=W,2=S,3=D}, ge, gtok, emitted, bare). Tokens are abstract: push : Tok x Byte -> Tok, pre(i) = s[:i].
; Invariant: gtok == pre(i), !ge, !emitted, !bare, (i == 0 => gm == B && !inq), (i > 0 && inq => gm == S), (i > 0 && !inq => gm == W).
; Facts from quotable + const.covers: hasOther <=> some byte of s is in allQuote; blank, nl, bs, dq and every SPECIAL byte except ' are in allQuote.
; Obligation: invariant at i+1 after the iteration's WriteByte calls, for every path.                          (expected: unsat)
(declare-sort Tok 0)
(declare-fun push (Tok Int) Tok)
(declare-fun pre (Int) Tok)
(declare-fun s (Int) Int) (declare-const n Int)
(assert (forall ((i Int)) (! (=> (and (<= 0 i) (< i n)) (and (<= 0 (s i)) (<= (s i) 255) (= (pre (+ i 1)) (push (pre i) (s i))))) :pattern ((pre (+ i 1))))))
(declare-fun inAllQuote (Int) Bool) (declare-fun special (Int) Bool)
(define-fun blank ((b Int)) Bool (or (= b 32) (= b 9)))
(define-fun isnl ((b Int)) Bool (= b 10)) (define-fun isbs ((b Int)) Bool (= b 92)) (define-fun issq ((b Int)) Bool (= b 39)) (define-fun isdq ((b Int)) Bool (= b 34))
(assert (forall ((b Int)) (! (=> (or (blank b) (isnl b) (isbs b) (isdq b)) (inAllQuote b)) :pattern ((inAllQuote b)))))
(assert (forall ((b Int)) (! (=> (and (special b) (not (issq b))) (inAllQuote b)) :pattern ((special b)))))
(assert (special 39))
(declare-const hasOther Bool)
(assert (= hasOther (exists ((j Int)) (and (<= 0 j) (< j n) (inAllQuote (s j))))))
; ---- spec step: returns components via functions of (gm, ge, b)
(define-fun nm ((gm Int) (ge Bool) (b Int)) Int            ; next mode
  (ite (= gm 2) (ite (issq b) 1 2)
  (ite (= gm 3) (ite ge 3 (ite (isdq b) 1 3))
  (ite ge (ite (isnl b) gm 1)
  (ite (= gm 0) (ite (or (blank b) (isnl b) (isbs b)) 0 (ite (issq b) 2 (ite (isdq b) 3 1)))
       (ite (or (blank b) (isnl b)) 0 (ite (isbs b) 1 (ite (issq b) 2 (ite (isdq b) 3 1)))))))))
(define-fun ne ((gm Int) (ge Bool) (b Int)) Bool           ; next esc flag
  (ite (= gm 2) false (ite ge false (isbs b))))
(define-fun pushes ((gm Int) (ge Bool) (b Int)) Bool       ; appends b to the token (single-byte push; D,esc other = two bytes, not reachable here)
  (ite (= gm 2) (not (issq b))
  (ite (= gm 3) (ite ge (or (isbs b) (isdq b)) (not (or (isdq b) (isbs b))))
  (ite ge (not (isnl b))
  (ite (= gm 0) (not (or (blank b) (isnl b) (isbs b) (issq b) (isdq b)))
       (not (or (blank b) (isnl b) (isbs b) (issq b) (isdq b))))))))
(define-fun emits ((gm Int) (ge Bool) (b Int)) Bool (and (= gm 1) (not ge) (or (blank b) (isnl b))))
(define-fun isbare ((gm Int) (ge Bool) (b Int)) Bool       ; b written outside quotes, not escaped, and special — except the backslash that escapes a quote, checked pairwise below
  (and (or (= gm 0) (= gm 1)) (not ge) (special b) (not (issq b)) (not (isbs b))))
; ---- loop state
(declare-const i Int) (declare-const inq Bool) (declare-const gm Int) (declare-const gtok Tok)
(assert (and (<= 0 i) (< i n)))
(assert (= gtok (pre i)))
(assert (=> (= i 0) (and (= gm 0) (not inq))))
(assert (=> (and (> i 0) inq) (= gm 2)))
(assert (=> (and (> i 0) (not inq)) (= gm 1)))
(define-fun ch () Int (s i))
; path P1: ch == '\'' && inq : writes ' \ '
; path P2: ch == '\'' && !inq: writes \ '
; path P3: ch != '\'' && !inq && hasOther: writes ' ch
; path P4: ch != '\'' && (inq || !hasOther): writes ch
(define-fun ok ((gm2 Int) (ge2 Bool) (tok2 Tok) (inq2 Bool)) Bool
  (and (= tok2 (pre (+ i 1))) (not ge2) (=> inq2 (= gm2 2)) (=> (not inq2) (= gm2 1))))
(push) (assert (and (issq ch) inq))       ; ' then \ then '
  (define-fun m1 () Int (nm gm false 39)) (define-fun e1 () Bool (ne gm false 39))
  (define-fun m2 () Int (nm m1 e1 92)) (define-fun e2 () Bool (ne m1 e1 92))
  (define-fun m3 () Int (nm m2 e2 39)) (define-fun e3 () Bool (ne m2 e2 39))
  (assert (not (and (not (pushes gm false 39)) (not (emits gm false 39)) (not (pushes m1 e1 92)) (not (emits m1 e1 92)) (pushes m2 e2 39) (not (emits m2 e2 39))
                    (ok m3 e3 (push gtok 39) false)))) (check-sat) (pop)
(push) (assert (and (issq ch) (not inq)))  ; \ then '
  (define-fun m1 () Int (nm gm false 92)) (define-fun e1 () Bool (ne gm false 92))
  (define-fun m2 () Int (nm m1 e1 39)) (define-fun e2 () Bool (ne m1 e1 39))
  (assert (not (and (not (pushes gm false 92)) (not (emits gm false 92)) (pushes m1 e1 39) (not (emits m1 e1 39)) (ok m2 e2 (push gtok 39) false)))) (check-sat) (pop)
(push) (assert (and (not (issq ch)) (not inq) hasOther))   ; ' then ch
  (define-fun m1 () Int (nm gm false 39)) (define-fun e1 () Bool (ne gm false 39))
  (define-fun m2 () Int (nm m1 e1 ch)) (define-fun e2 () Bool (ne m1 e1 ch))
  (assert (not (and (not (pushes gm false 39)) (not (emits gm false 39)) (pushes m1 e1 ch) (not (emits m1 e1 ch)) (not (isbare m1 e1 ch)) (ok m2 e2 (push gtok ch) true)))) (check-sat) (pop)
(push) (assert (and (not (issq ch)) (or inq (not hasOther))))   ; ch
  (define-fun m1 () Int (nm gm false ch)) (define-fun e1 () Bool (ne gm false ch))
  (assert (not (and (pushes gm false ch) (not (emits gm false ch)) (not (isbare gm false ch)) (ok m1 e1 (push gtok ch) inq)))) (check-sat) (pop)
