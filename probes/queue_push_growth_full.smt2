; C07: queue.Push, the whole growth branch as the generator is meant to emit it:
;   slice.Rotate by contract (havoc + frame on the backing array), append in both regimes, w[:cap(w)], head = len-1, vs[head] = v.
; Slices are (base, off, len, cap) over an element store E : Ref -> (Int -> T).
; Rotate's postcondition is used in *gather* form with a linear normalisation instead of `mod`:
;     forall t in [0,len): ss'[t] == old(ss[norm(t - k, len)]),   norm(x,m) = x<0 ? x+m : x>=m ? x-m : x     (valid for -len <= k <= len)
; (the scatter form with SMT `mod` and a symbolic modulus made this query time out on both z3 versions)
; Obligation: inv', view'(0) == v, forall i < n. view'(i+1) == old view(i).        (expected: unsat x2, one per append regime)
(declare-sort T 0)
(declare-const E (Array Int (Array Int T))) (declare-const alloc (Array Int Bool))
(declare-const base Int) (declare-const off Int) (declare-const len Int) (declare-const cap Int)
(declare-const head Int) (declare-const n Int) (declare-const v T)
(define-fun wrap ((x Int) (m Int)) Int (ite (< x m) x (- x m)))
(define-fun norm ((x Int) (m Int)) Int (ite (< x 0) (+ x m) (ite (>= x m) (- x m) x)))
(assert (and (<= 0 off) (<= 0 len) (<= len cap)))
(assert (and (<= 0 n) (<= n len) (<= 0 head) (or (< head len) (and (= head 0) (= len 0)))))
(assert (not (< n len)))
(define-fun oldview ((i Int)) T (select (select E base) (+ off (wrap (+ head i) len))))
; ---- if head > 0 { slice.Rotate(q.vs, -q.head); q.head = 0 }      k = -head
(declare-const A1 (Array Int T))
(define-fun E1 () (Array Int (Array Int T)) (ite (> head 0) (store E base A1) E))
(assert (=> (> head 0) (and
   (forall ((t Int)) (! (=> (and (<= 0 t) (< t len)) (= (select A1 (+ off t)) (select (select E base) (+ off (norm (+ t head) len))))) :pattern ((select A1 (+ off t)))))
   (forall ((x Int)) (! (=> (or (< x off) (>= x (+ off len))) (= (select A1 x) (select (select E base) x))) :pattern ((select A1 x)))))))
; ---- w := append(q.vs, v)
(declare-const wb Int) (declare-const wo Int) (declare-const wcap Int) (declare-const E2 (Array Int (Array Int T)))
(declare-const i Int)
(define-fun Post () Bool
  (let ((E3 (store E2 wb (store (select E2 wb) (+ wo (- wcap 1)) v))) (head3 (- wcap 1)) (len3 wcap) (n3 (+ n 1)))
   (and (<= 0 n3) (<= n3 len3) (<= 0 head3) (< head3 len3)
        (= (select (select E3 wb) (+ wo (wrap (+ head3 0) len3))) v)
        (=> (and (<= 0 i) (< i n)) (= (select (select E3 wb) (+ wo (wrap (+ head3 i 1) len3))) (oldview i))))))
(push) ; regime A: len < cap, in place
  (assert (< len cap))
  (assert (and (= wb base) (= wo off) (= wcap cap) (= E2 (store E1 base (store (select E1 base) (+ off len) v)))))
  (assert (not Post)) (check-sat)
(pop)
(push) ; regime B: len == cap, fresh backing array, arbitrary larger capacity
  (assert (= len cap))
  (assert (and (not (= wb 0)) (not (select alloc wb)) (select alloc base) (= wo 0) (>= wcap (+ len 1))))
  (declare-const A2 (Array Int T))
  (assert (= E2 (store E1 wb A2)))
  (assert (forall ((k Int)) (! (=> (and (<= 0 k) (< k len)) (= (select A2 k) (select (select E1 base) (+ off k)))) :pattern ((select A2 k)))))
  (assert (= (select A2 len) v))
  (assert (not Post)) (check-sat)
(pop)
