; C05: heapq.pop(i) with the F2 repair, call-site obligations as the generator emits them (callee bodies replaced by contracts):
;   d  = heap before (heapOK, length n+1), out = d[i], d1 = d with d[i] := d[n] (the swap; slot n is then cut off), length n, 0 <= i < n
;   1  pre.pushDown#1 : downPre(d1, n, i, L=0)
;   2  after pushDown returns r == i (post: data unchanged, all pairs ordered except (parent i, i)):  pre.pushUp#1 : upPre(d1, n, i)
;   3  after pushDown returns r != i (post: heapFrom 0): postcondition heapOK                                  (expected: unsat x3)
;   4  WITHOUT the repair (pop returns right after pushDown): heapOK in the r == i case                        (expected: sat — this is F2)
(declare-sort T 0)
(declare-fun ord (T T) Int)
(assert (forall ((a T)) (! (= (ord a a) 0) :pattern ((ord a a)))))
(assert (forall ((a T) (b T)) (! (and (= (< (ord a b) 0) (> (ord b a) 0)) (= (= (ord a b) 0) (= (ord b a) 0))) :pattern ((ord a b)))))
(assert (forall ((a T) (b T) (c T)) (! (=> (and (<= (ord a b) 0) (<= (ord b c) 0)) (<= (ord a c) 0)) :pattern ((ord a b) (ord b c)))))
(define-fun parent ((j Int)) Int (div (- j 1) 2))
(define-fun le ((d (Array Int T)) (a Int) (b Int)) Bool (<= (ord (select d a) (select d b)) 0))
(define-fun Heap ((d (Array Int T)) (n Int)) Bool (forall ((j Int)) (! (=> (and (<= 1 j) (< j n)) (le d (parent j) j)) :pattern ((select d j)))))
(define-fun DownPre ((d (Array Int T)) (n Int) (i Int)) Bool
  (and (forall ((j Int)) (! (=> (and (<= 1 j) (< j n) (not (= j i)) (not (= (parent j) i))) (le d (parent j) j)) :pattern ((select d j))))
       (=> (> i 0) (forall ((j Int)) (! (=> (and (<= 1 j) (< j n) (= (parent j) i)) (le d (parent i) j)) :pattern ((select d j)))))))
(define-fun UpPre ((d (Array Int T)) (n Int) (i Int)) Bool
  (and (forall ((j Int)) (! (=> (and (<= 1 j) (< j n) (not (= j i))) (le d (parent j) j)) :pattern ((select d j))))
       (=> (> i 0) (forall ((j Int)) (! (=> (and (<= 1 j) (< j n) (= (parent j) i)) (le d (parent i) j)) :pattern ((select d j)))))))
(declare-const d (Array Int T)) (declare-const n Int) (declare-const i Int)
(assert (and (<= 0 i) (< i n)))                 ; i < n : the removed element is not the last one
(assert (Heap d (+ n 1)))
(define-fun d1 () (Array Int T) (store d i (select d n)))
(push) (assert (not (DownPre d1 n i))) (check-sat) (pop)
(push) ; pushDown post, not moved: every pair ordered except possibly (parent i, i); data unchanged
  (assert (forall ((j Int)) (! (=> (and (<= 1 j) (< j n) (not (= j i))) (le d1 (parent j) j)) :pattern ((select d1 j)))))
  (assert (not (UpPre d1 n i))) (check-sat) (pop)
(push) (declare-const d2 (Array Int T)) (assert (Heap d2 n)) (assert (not (Heap d2 n))) (check-sat) (pop)
(push) (assert (forall ((j Int)) (! (=> (and (<= 1 j) (< j n) (not (= j i))) (le d1 (parent j) j)) :pattern ((select d1 j)))))
  (assert (not (Heap d1 n))) (check-sat) (pop)
