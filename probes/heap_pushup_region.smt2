; C05 / known finding F1: the region mechanism. pushUp's loop obligations with the tree's parent index i/2,
; re-checked under "assume !region" with region := (i mod 2 == 0).  Outside the region they must discharge.
;   1 preserve (swap path) under i odd        expected unsat
;   2 exit (break path)    under i odd        expected unsat
;   3 preserve under i even                   expected sat/unknown  (this is F1; shown for contrast)
(declare-sort T 0)
(declare-fun ord (T T) Int)
(assert (forall ((a T)) (! (= (ord a a) 0) :pattern ((ord a a)))))
(assert (forall ((a T) (b T)) (! (and (= (< (ord a b) 0) (> (ord b a) 0)) (= (= (ord a b) 0) (= (ord b a) 0))) :pattern ((ord a b)))))
(assert (forall ((a T) (b T) (c T)) (! (=> (and (<= (ord a b) 0) (<= (ord b c) 0)) (<= (ord a c) 0)) :pattern ((ord a b) (ord b c)))))
(define-fun parent ((j Int)) Int (div (- j 1) 2))
(declare-const d (Array Int T)) (declare-const n Int) (declare-const i Int)
(define-fun InvU ((d (Array Int T)) (n Int) (i Int)) Bool
  (and (<= 0 i) (< i n)
   (forall ((j Int)) (! (=> (and (<= 1 j) (< j n) (not (= j i))) (<= (ord (select d (parent j)) (select d j)) 0)) :pattern ((select d j))))
   (forall ((j Int)) (! (=> (and (<= 1 j) (< j n) (= (parent j) i) (> i 0)) (<= (ord (select d (parent i)) (select d j)) 0)) :pattern ((select d j))))))
(define-fun Heap ((d (Array Int T)) (n Int)) Bool
   (forall ((j Int)) (! (=> (and (<= 1 j) (< j n)) (<= (ord (select d (parent j)) (select d j)) 0)) :pattern ((select d j)))))
(assert (InvU d n i))
(assert (> i 0))
(define-fun p () Int (div i 2))
(define-fun d2 () (Array Int T) (store (store d i (select d p)) p (select d i)))
(push) (assert (= (mod i 2) 1)) (assert (< (ord (select d i) (select d p)) 0)) (assert (not (InvU d2 n p))) (check-sat) (pop)
(push) (assert (= (mod i 2) 1)) (assert (>= (ord (select d i) (select d p)) 0)) (assert (not (Heap d n))) (check-sat) (pop)
(push) (assert (= (mod i 2) 0)) (assert (< (ord (select d i) (select d p)) 0)) (assert (not (InvU d2 n p))) (check-sat) (pop)
