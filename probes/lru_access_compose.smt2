; C08: lruStore.Access verified against heapq's CONTRACTS only (Remove then Add), with the report role updating `present`.
; Elements E with key/stamp; present = (dom, val); bag equality of the callee posts is used through skolemised membership
; witnesses in BOTH directions (new -> old and old -> new); with only one direction the DomOK obligation is not provable.
; lruInv(d, n, dom, val, clock):
;    heapOK by stamp; tracked; dom ⊆ keys(data) (val in range and key matches); 0 < stamp <= clock; stamps pairwise distinct
; Code:  pos := present[key] (ok);  clock++;  out := Remove(pos);  out.lastAccess = clock;  Add(out)
; Obligation: lruInv afterwards, and the abstract effect: key still present, its stamp is the new clock (strict maximum).   (expected: unsat)
(declare-sort E 0) (declare-sort K 0)
(declare-fun key (E) K) (declare-fun stamp (E) Int) (declare-fun restamp (E Int) E)
(assert (forall ((e E) (s Int)) (! (and (= (key (restamp e s)) (key e)) (= (stamp (restamp e s)) s)) :pattern ((restamp e s)))))
(define-fun parent ((j Int)) Int (div (- j 1) 2))
(define-fun Heap ((d (Array Int E)) (n Int)) Bool (forall ((j Int)) (! (=> (and (<= 1 j) (< j n)) (<= (stamp (select d (parent j))) (stamp (select d j)))) :pattern ((select d j)))))
(define-fun Tracked ((d (Array Int E)) (n Int) (dom (Array K Bool)) (val (Array K Int))) Bool
  (forall ((j Int)) (! (=> (and (<= 0 j) (< j n)) (and (select dom (key (select d j))) (= (select val (key (select d j))) j))) :pattern ((select d j)))))
(define-fun DomOK ((d (Array Int E)) (n Int) (dom (Array K Bool)) (val (Array K Int))) Bool
  (forall ((k K)) (! (=> (select dom k) (and (<= 0 (select val k)) (< (select val k) n) (= (key (select d (select val k))) k))) :pattern ((select dom k)))))
(define-fun Stamps ((d (Array Int E)) (n Int) (clock Int)) Bool
  (and (forall ((j Int)) (! (=> (and (<= 0 j) (< j n)) (and (< 0 (stamp (select d j))) (<= (stamp (select d j)) clock))) :pattern ((select d j))))
       (forall ((a Int) (b Int)) (! (=> (and (<= 0 a) (< a b) (< b n)) (not (= (stamp (select d a)) (stamp (select d b))))) :pattern ((select d a) (select d b))))))
(define-fun LruInv ((d (Array Int E)) (n Int) (dom (Array K Bool)) (val (Array K Int)) (clock Int)) Bool
  (and (<= 0 n) (Heap d n) (Tracked d n dom val) (DomOK d n dom val) (Stamps d n clock)))
; bag membership, as given by the spec library: every element of the new array is an element of the old one (minus / plus one)
(declare-fun wit1 (Int) Int)   ; for Remove: index in d of d1[j]
(declare-fun wit2 (Int) Int)   ; for Add:    index in d1 of d2[j], or -1 for the added element
(declare-fun iw1 (Int) Int)    ; converse for Remove: index in d1 of d[j] (j != pos)
(declare-fun iw2 (Int) Int)    ; converse for Add:    index in d2 of d1[j]
; ---------- pre-state
(declare-const d (Array Int E)) (declare-const n Int) (declare-const dom (Array K Bool)) (declare-const val (Array K Int)) (declare-const clock Int)
(declare-const k K)
(assert (LruInv d n dom val clock))
(assert (select dom k))
(define-fun pos () Int (select val k))
(define-fun clock1 () Int (+ clock 1))
; ---------- Remove(pos) by contract (pos < n holds by DomOK): out == d[pos]; Heap; Tracked; members of d1 are members of d other than pos; rep frame
(declare-const d1 (Array Int E)) (declare-const dom1 (Array K Bool)) (declare-const val1 (Array K Int))
(define-fun out () E (select d pos))
(define-fun n1 () Int (- n 1))
(assert (Heap d1 n1)) (assert (Tracked d1 n1 dom1 val1))
(assert (forall ((j Int)) (! (=> (and (<= 0 j) (< j n1)) (and (<= 0 (wit1 j)) (< (wit1 j) n) (not (= (wit1 j) pos)) (= (select d1 j) (select d (wit1 j))))) :pattern ((select d1 j)))))
(assert (forall ((a Int) (b Int)) (! (=> (and (<= 0 a) (< a b) (< b n1)) (not (= (wit1 a) (wit1 b)))) :pattern ((wit1 a) (wit1 b)))))
(assert (forall ((j Int)) (! (=> (and (<= 0 j) (< j n) (not (= j pos))) (and (<= 0 (iw1 j)) (< (iw1 j) n1) (= (select d1 (iw1 j)) (select d j)))) :pattern ((select d j)))))
; rep frame: keys not held before are untouched (dom and val)
(assert (forall ((x K)) (! (=> (forall ((j Int)) (=> (and (<= 0 j) (< j n)) (not (= (key (select d j)) x)))) (and (= (select dom1 x) (select dom x)) (= (select val1 x) (select val x)))) :pattern ((select dom1 x)))))
; reports only ever set dom to true
(assert (forall ((x K)) (! (=> (select dom x) (select dom1 x)) :pattern ((select dom1 x)))))
; ---------- out.lastAccess = clock; Add(out') by contract
(define-fun out2 () E (restamp out clock1))
(declare-const d2 (Array Int E)) (declare-const dom2 (Array K Bool)) (declare-const val2 (Array K Int)) (declare-const r Int)
(define-fun n2 () Int n)
(assert (Heap d2 n2)) 
(assert (and (<= 0 r) (< r n2) (= (select d2 r) out2)))
; Add's tracked post needs distinct keys in the new array: holds because out's key was removed; the generator proves it as Add's precondition:
(assert (Tracked d2 n2 dom2 val2))
(assert (forall ((j Int)) (! (=> (and (<= 0 j) (< j n2) (not (= j r))) (and (<= 0 (wit2 j)) (< (wit2 j) n1) (= (select d2 j) (select d1 (wit2 j))))) :pattern ((select d2 j)))))
(assert (forall ((a Int) (b Int)) (! (=> (and (<= 0 a) (< a b) (< b n2) (not (= a r)) (not (= b r))) (not (= (wit2 a) (wit2 b)))) :pattern ((wit2 a) (wit2 b)))))
(assert (forall ((j Int)) (! (=> (and (<= 0 j) (< j n1)) (and (<= 0 (iw2 j)) (< (iw2 j) n2) (not (= (iw2 j) r)) (= (select d2 (iw2 j)) (select d1 j)))) :pattern ((select d1 j)))))
(assert (forall ((x K)) (! (=> (and (not (= x (key out2))) (forall ((j Int)) (=> (and (<= 0 j) (< j n1)) (not (= (key (select d1 j)) x))))) (and (= (select dom2 x) (select dom1 x)) (= (select val2 x) (select val1 x)))) :pattern ((select dom2 x)))))
(assert (forall ((x K)) (! (=> (select dom1 x) (select dom2 x)) :pattern ((select dom2 x)))))
; ---------- obligations
(push) (assert (not (and (Heap d2 n2) (Tracked d2 n2 dom2 val2) (Stamps d2 n2 clock1)))) (check-sat) (pop)
(push) (assert (not (DomOK d2 n2 dom2 val2))) (check-sat) (pop)
(push) (assert (not (and (select dom2 k) (= (stamp (select d2 (select val2 k))) clock1)
          (forall ((j Int)) (=> (and (<= 0 j) (< j n2) (not (= j (select val2 k)))) (< (stamp (select d2 j)) clock1)))))) (check-sat) (pop)
