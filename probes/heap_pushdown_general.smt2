; C05: the *general* pushDown contract that serves pop (after the F2 fix), heapify and Set.
;   requires  P1: all pairs (parent j, j) ordered for parent j >= L, except j == i0 and except parent j == i0
;             P2: i0 > 0 && parent i0 >= L ==> every child of i0 is >= data[parent i0]
;   loop inv  at current i >= i0: pairs with parent >= L ordered except children of i, and except (parent i0, i0) while i == i0;
;             i != i0 ==> children of i are >= data[parent i]   (the promoted child sits at parent i)
;   ensures   r != i0 ==> heapFrom(L);   r == i0 ==> all pairs parent>=L ordered except (parent i0, i0)  [= pushUp's precondition]
; Four check-sats: entry, preserve, exit-moved, exit-not-moved   (expected: unsat x4)
(declare-sort T 0)
(declare-fun ord (T T) Int)
(assert (forall ((a T)) (! (= (ord a a) 0) :pattern ((ord a a)))))
(assert (forall ((a T) (b T)) (! (and (= (< (ord a b) 0) (> (ord b a) 0)) (= (= (ord a b) 0) (= (ord b a) 0))) :pattern ((ord a b)))))
(assert (forall ((a T) (b T) (c T)) (! (=> (and (<= (ord a b) 0) (<= (ord b c) 0)) (<= (ord a c) 0)) :pattern ((ord a b) (ord b c)))))
(define-fun parent ((j Int)) Int (div (- j 1) 2))
(declare-const n Int) (declare-const L Int) (declare-const i0 Int)
(assert (and (<= 0 L) (<= L i0) (<= 0 i0)))
(define-fun le ((d (Array Int T)) (a Int) (b Int)) Bool (<= (ord (select d a) (select d b)) 0))
(define-fun Pre ((d (Array Int T))) Bool
  (and (forall ((j Int)) (! (=> (and (<= 1 j) (< j n) (>= (parent j) L) (not (= j i0)) (not (= (parent j) i0))) (le d (parent j) j)) :pattern ((select d j))))
       (=> (and (> i0 0) (>= (parent i0) L)) (forall ((j Int)) (! (=> (and (<= 1 j) (< j n) (= (parent j) i0)) (le d (parent i0) j)) :pattern ((select d j)))))))
(define-fun Inv ((d (Array Int T)) (i Int)) Bool
  (and (>= i i0)
       (forall ((j Int)) (! (=> (and (<= 1 j) (< j n) (>= (parent j) L) (not (= (parent j) i)) (not (and (= j i0) (= i i0)))) (le d (parent j) j)) :pattern ((select d j))))
       (=> (and (> i 0) (>= (parent i) L)) (forall ((j Int)) (! (=> (and (<= 1 j) (< j n) (= (parent j) i)) (le d (parent i) j)) :pattern ((select d j)))))))
(declare-const d (Array Int T)) (declare-const i Int)
; 1 entry
(push) (assert (Pre d)) (assert (not (Inv d i0))) (check-sat) (pop)
; common loop-step definitions
(define-fun lc () Int (+ (* 2 i) 1))
(define-fun rc () Int (+ lc 1))
(define-fun m1 () Int (ite (< (ord (select d lc) (select d i)) 0) lc i))
(define-fun mn () Int (ite (and (< rc n) (< (ord (select d rc) (select d m1)) 0)) rc m1))
(define-fun d2 () (Array Int T) (store (store d i (select d mn)) mn (select d i)))
; 2 preserve
(push) (assert (Inv d i)) (assert (< lc n)) (assert (not (= mn i))) (assert (not (Inv d2 mn))) (check-sat) (pop)
; 3 exit, element moved (i != i0): heapFrom(L)
(push) (assert (Inv d i)) (assert (or (>= lc n) (= mn i))) (assert (not (= i i0)))
  (assert (not (forall ((j Int)) (! (=> (and (<= 1 j) (< j n) (>= (parent j) L)) (le d (parent j) j)) :pattern ((select d j)))))) (check-sat) (pop)
; 4 exit, not moved (i == i0): everything ordered except possibly (parent i0, i0)
(push) (assert (Inv d i)) (assert (or (>= lc n) (= mn i))) (assert (= i i0))
  (assert (not (forall ((j Int)) (! (=> (and (<= 1 j) (< j n) (>= (parent j) L) (not (= j i0))) (le d (parent j) j)) :pattern ((select d j)))))) (check-sat) (pop)
