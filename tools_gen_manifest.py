#!/usr/bin/env python3
# Regenerates MANIFEST.json from props/*.json and manifest_notes.json (level texts per property).
import json, glob, os, subprocess
here = os.path.dirname(os.path.abspath(__file__))
notes = json.load(open(os.path.join(here, "manifest_notes.json")))
props = [json.loads(l) for l in open(os.path.join(here, "properties.jsonl"))]
claimed = sorted(os.path.basename(p)[:-5] for p in glob.glob(os.path.join(here, "props", "C*.json")))
checks = []
for pid in claimed:
    n = notes["checks"][pid]
    checks.append({
        "property_id": pid,
        "quick_cmd": "./check %s quick" % pid,
        "thorough_cmd": "./check %s thorough" % pid,
        "evidence_file": "/verif/evidence/%s.json" % pid,
        "replay_cmd_template": "bin/govc replay {path}",
        "engine": "govc",
        "level_claimed": {"category": n.get("category", "proof"), "text": n["text"], "design_ref": n.get("design_ref", "DESIGN.md §6 " + pid)},
        "level_note": n["note"],
        "technique": n.get("technique", "contract-based deductive verification: weakest-precondition VCs over the typed Go AST, discharged by z3/cvc5"),
    })
na = []
for p in props:
    if p["id"] not in claimed:
        na.append({"property_id": p["id"], "reason": notes["not_applicable"].get(p["id"], "not reached: no contract-level check for this property has been built yet")})
hooks = notes["hooks"]
try:
    out = subprocess.run(["git", "-C", "/repo", "log", "--format=%H %s"], capture_output=True, text=True).stdout
    hooks["source_commits"] = [l.split()[0] for l in out.splitlines() if " verif-hook:" in " " + l or l.split(" ", 1)[1].startswith("verif:")]
except Exception:
    pass
m = {
    "version": 1,
    "setup_cmd": "cd /verif && GOFLAGS=-mod=mod GOPROXY=off GOSUMDB=off GOTOOLCHAIN=local go build -o bin/govc ./cmd/govc",
    "hooks": hooks,
    "engines": [{"name": "govc", "path": "/verif/cmd/govc", "serves_properties": claimed,
                 "kind_free_text": "own deductive verifier for Go: contracts in //@ comments (build-tag-guarded files), VC generation by forward symbolic execution over go/ast+go/types with state merging, loop invariants, calls by contract; obligations discharged by a z3-new/z3/cvc5 portfolio"}],
    "checks": checks,
    "notes": notes["notes"],
    "not_applicable": na,
}
json.dump(m, open(os.path.join(here, "MANIFEST.json"), "w"), indent=1)
print("MANIFEST.json:", len(checks), "checks,", len(na), "not applicable")
