#!/bin/bash
# usage: tools_eval_mutant.sh <mutant-dir> <property-id> [more property ids...]
# 1. confirms the mutant in a scratch worktree (compiles, existing tests pass, demo fails with it and passes without it)
# 2. applies it to /repo, runs the given checks, and reverts /repo.
set -u
export GOFLAGS=-mod=mod GOPROXY=off GOSUMDB=off GOTOOLCHAIN=local
d=$(realpath "$1"); shift
pkg=$(python3 -c "import json;print(json.load(open('$d/meta.json'))['package'])")
w=/tmp/mutcheck.$$
git -C /repo worktree add -q --detach $w HEAD || exit 2
trap 'git -C /repo worktree remove --force $w >/dev/null 2>&1; git -C /repo checkout -q -- . 2>/dev/null' EXIT
cd $w
demo=$w/$pkg/zz_demo_test.go
cp $d/demo_test.go $demo
echo "== without the change: demo must pass"
go test -count=1 ./$pkg/ >/tmp/mutcheck.base.log 2>&1 && echo "   demo passes on the unchanged tree" || { echo "   DEMO FAILS ON UNCHANGED TREE"; tail -5 /tmp/mutcheck.base.log; exit 3; }
rm $demo
git apply $d/patch.diff || { echo "patch does not apply"; exit 3; }
echo "== with the change: build, vet, existing tests"
go build ./... && go vet ./$pkg/ >/dev/null 2>&1 && echo "   builds, vets" || { echo "   DOES NOT BUILD/VET"; exit 3; }
go test -count=1 ./... >/tmp/mutcheck.suite.log 2>&1 && echo "   existing suite passes" || { echo "   EXISTING SUITE FAILS"; grep -v "^ok\|no test files" /tmp/mutcheck.suite.log | head; exit 3; }
cp $d/demo_test.go $demo
go test -count=1 ./$pkg/ >/tmp/mutcheck.demo.log 2>&1 && { echo "   DEMO PASSES WITH THE CHANGE (not a valid mutant)"; exit 3; } || echo "   demo fails with the change (confirmed)"
cd /verif
rm -rf /tmp/mutcheck.evidence.$$; cp -r /verif/evidence /tmp/mutcheck.evidence.$$   # evidence of the clean tree is restored afterwards
git -C /repo apply $d/patch.diff || { echo "patch does not apply to /repo"; exit 3; }
for p in "$@"; do
  echo "== check $p on the mutated tree"
  ./bin/govc check $p > /tmp/mutcheck.$p.log 2>&1; rc=$?
  grep -E "^VIOLATION|^KNOWN|discharged" /tmp/mutcheck.$p.log | cut -c1-260
  echo "   exit=$rc"
done
git -C /repo checkout -q -- .
rm -rf /verif/evidence; mv /tmp/mutcheck.evidence.$$ /verif/evidence; rm -rf /verif/replays
